//! C10: reports round-trip losslessly from `group` to the dedupe commands.
//!
//! Library-level round trips: ReportWriter::write_as_text / write_as_json -> open_report ->
//! read_header + read_groups, for generated headers and groups with hostile path bytes; and a
//! truncation sweep: every byte-truncation point of small reports must either fail or yield only
//! groups equal to a prefix of the original list.
use std::collections::BTreeMap;
use std::ffi::OsString;
use std::io::Cursor;
use std::os::unix::ffi::{OsStrExt, OsStringExt};
use std::panic::{catch_unwind, AssertUnwindSafe};
use std::sync::atomic::{AtomicU64, Ordering};
use std::sync::Mutex;

use chrono::{DateTime, FixedOffset, TimeZone};
use fallible_iter::collect_groups;
use fclones::report::{open_report, FileStats, ReportHeader, ReportWriter};
use fclones::verif_api::Arg;
use fclones::{FileGroup, FileHash, FileLen, Path};
use fcv_harness::{arg_usize, json_bytes, json_str, Rng};

mod fallible_iter {
    use fclones::report::ReportReader;
    use fclones::{FileGroup, Path};

    /// Drains the group iterator: (groups read before the first error, error text if any)
    pub fn collect_groups(reader: Box<dyn ReportReader>) -> (Vec<FileGroup<Path>>, Option<String>) {
        let mut out = vec![];
        let mut it = match reader.read_groups() {
            Ok(it) => it,
            Err(e) => return (out, Some(e.to_string())),
        };
        loop {
            match it.next() {
                Ok(Some(g)) => out.push(g),
                Ok(None) => return (out, None),
                Err(e) => return (out, Some(e.to_string())),
            }
        }
    }
}

fn alphabet() -> Vec<Vec<u8>> {
    vec![
        b" ".to_vec(),
        b"\t".to_vec(),
        "\u{a0}".as_bytes().to_vec(),
        b"\n".to_vec(),
        b"\r".to_vec(),
        b"'".to_vec(),
        b"\"".to_vec(),
        b"\\".to_vec(),
        b"#".to_vec(),
        b"a".to_vec(),
        "ż".as_bytes().to_vec(),
        "😀".as_bytes().to_vec(),
        vec![0xFF],
        vec![0x7F],
        "\u{2028}".as_bytes().to_vec(),
        b"/".to_vec(),
    ]
}

struct Shared {
    roundtrips: AtomicU64,
    paths_checked: AtomicU64,
    headers_checked: AtomicU64,
    truncations: AtomicU64,
    truncations_rejected: AtomicU64,
    truncations_prefix_ok: AtomicU64,
    violations: Mutex<Vec<(String, String, String)>>,
    sig_counts: Mutex<BTreeMap<String, u64>>,
}

impl Shared {
    fn report(&self, sig: &str, input: String, detail: String) {
        *self.sig_counts.lock().unwrap().entry(sig.to_string()).or_insert(0) += 1;
        let mut v = self.violations.lock().unwrap();
        if v.iter().filter(|x| x.0 == sig).count() < 4 {
            v.push((sig.to_string(), input, detail));
        }
    }
}

fn os(b: &[u8]) -> OsString {
    OsString::from_vec(b.to_vec())
}

fn pbytes(p: &Path) -> Vec<u8> {
    p.to_path_buf().as_os_str().as_bytes().to_vec()
}

fn ts(ms: i64) -> DateTime<FixedOffset> {
    let off = FixedOffset::east_opt(3600 * ((ms % 5) as i32 - 2)).unwrap();
    off.timestamp_millis_opt(1_600_000_000_000 + ms).unwrap()
}

fn mk_header(cmd: &[Vec<u8>], base: &[u8], k: u64) -> ReportHeader {
    ReportHeader {
        version: "0.35.0".to_string(),
        timestamp: ts((k % 100_000) as i64 * 7 + 123),
        command: cmd.iter().map(|a| Arg::from(os(a))).collect(),
        base_dir: Path::from(os(base)),
        stats: Some(FileStats {
            group_count: (k % 7) as usize,
            total_file_count: (k % 11) as usize,
            total_file_size: FileLen(big(k + 2, k * 3)),
            redundant_file_count: (k % 5) as usize,
            redundant_file_size: FileLen(big(k + 3, k)),
            missing_file_count: (k % 3) as usize,
            missing_file_size: FileLen(k % 13),
        }),
    }
}

/// Sizes beyond what a float (2^53) or a signed 64-bit integer holds exactly, every fourth time.
fn big(k: u64, base: u64) -> u64 {
    match k % 8 {
        0 => (1u64 << 53) + 1 + base,
        4 => u64::MAX - 7 - (base % 1000),
        _ => base,
    }
}

fn mk_groups(special: &[u8], k: u64) -> Vec<FileGroup<Path>> {
    let sp = Path::from(os(special));
    let p = |s: &str| Path::from(s);
    vec![
        FileGroup {
            file_len: FileLen(big(k, 100 + k)),
            file_hash: FileHash::from(0xabcdef0123456789u128 + k as u128),
            files: vec![sp.clone(), p("/plain/one"), p("/plain/two")],
        },
        FileGroup {
            file_len: FileLen(50),
            file_hash: FileHash::from(&[1u8, 2, 3, 4, 5, 6, 7, 8, 9, 10, 11, 12, 13, 14, 15, 16, 17, 18, 19, 20][..]),
            files: vec![p("/plain/three"), sp.clone(), p("/plain/four")],
        },
        FileGroup { file_len: FileLen(0), file_hash: FileHash::from(7u128), files: vec![p("/plain/five"), sp] },
    ]
}

fn write_report(fmt: u8, header: &ReportHeader, groups: &[FileGroup<Path>]) -> Vec<u8> {
    let mut buf = Vec::new();
    {
        let mut w = ReportWriter::new(&mut buf, false);
        if fmt == 0 {
            w.write_as_text(header, groups.iter()).unwrap();
        } else {
            w.write_as_json(header, groups.iter()).unwrap();
        }
    }
    buf
}

fn classify_path(b: &[u8]) -> &'static str {
    let s = String::from_utf8_lossy(b);
    let trimmed = s.trim();
    if trimmed.len() != s.len() {
        "leading-or-trailing-whitespace"
    } else if b.contains(&b'\\') {
        "backslash"
    } else {
        "other"
    }
}

fn groups_equal(a: &FileGroup<Path>, b: &FileGroup<Path>) -> bool {
    a.file_len == b.file_len
        && a.file_hash == b.file_hash
        && a.files.len() == b.files.len()
        && a.files.iter().zip(b.files.iter()).all(|(x, y)| pbytes(x) == pbytes(y))
}

fn roundtrip(sh: &Shared, fmt: u8, header: &ReportHeader, groups: &[FileGroup<Path>], what: &str, special: &[u8]) {
    let fname = if fmt == 0 { "text" } else { "json" };
    let data = write_report(fmt, header, groups);
    sh.roundtrips.fetch_add(1, Ordering::Relaxed);
    let res = catch_unwind(AssertUnwindSafe(|| {
        let mut reader = open_report(Cursor::new(data.clone())).map_err(|e| format!("open_report: {e}"))?;
        let h = reader.read_header().map_err(|e| format!("read_header: {e}"))?;
        let (gs, err) = collect_groups(reader);
        Ok::<_, String>((h, gs, err))
    }));
    let input = format!("{} {}", what, json_bytes(special));
    match res {
        Err(_) => sh.report(&format!("C10:{fname}:{what}:panic"), input, "reader panicked".into()),
        Ok(Err(e)) => sh.report(&format!("C10:{fname}:{what}:rejected:{}", classify_path(special)), input, e),
        Ok(Ok((h, gs, err))) => {
            sh.headers_checked.fetch_add(1, Ordering::Relaxed);
            if h.version != header.version || h.timestamp != header.timestamp || h.stats != header.stats {
                sh.report(&format!("C10:{fname}:{what}:header-scalars-differ"), input.clone(), format!("{:?} vs {:?}", h.timestamp, header.timestamp));
            }
            if h.command != header.command {
                let got: Vec<String> = h.command.iter().map(|a| json_bytes(a.as_os_str().as_bytes())).collect();
                sh.report(&format!("C10:{fname}:{what}:command-differs"), input.clone(), format!("read back [{}]", got.join(",")));
            }
            if pbytes(&h.base_dir) != pbytes(&header.base_dir) {
                sh.report(
                    &format!("C10:{fname}:{what}:base-dir-differs:{}", classify_path(&pbytes(&header.base_dir))),
                    input.clone(),
                    format!("read back {}", json_bytes(&pbytes(&h.base_dir))),
                );
            }
            if let Some(e) = err {
                sh.report(&format!("C10:{fname}:{what}:groups-rejected:{}", classify_path(special)), input, e);
                return;
            }
            if gs.len() != groups.len() || !gs.iter().zip(groups.iter()).all(|(a, b)| groups_equal(a, b)) {
                let first_bad = gs.iter().zip(groups.iter()).position(|(a, b)| !groups_equal(a, b));
                let detail = match first_bad {
                    Some(i) => format!(
                        "group {i}: read [{}]",
                        gs[i].files.iter().map(|p| json_bytes(&pbytes(p))).collect::<Vec<_>>().join(",")
                    ),
                    None => format!("{} groups read, {} written", gs.len(), groups.len()),
                };
                sh.report(&format!("C10:{fname}:{what}:groups-differ:{}", classify_path(special)), input, detail);
            } else {
                sh.paths_checked.fetch_add(groups.iter().map(|g| g.files.len() as u64).sum(), Ordering::Relaxed);
            }
        }
    }
}

fn truncation_sweep(sh: &Shared, fmt: u8, header: &ReportHeader, groups: &[FileGroup<Path>], tag: &str) {
    let fname = if fmt == 0 { "text" } else { "json" };
    let data = write_report(fmt, header, groups);
    for cut in 0..data.len() {
        sh.truncations.fetch_add(1, Ordering::Relaxed);
        let part = data[..cut].to_vec();
        let res = catch_unwind(AssertUnwindSafe(|| {
            let mut reader = match open_report(Cursor::new(part)) {
                Ok(r) => r,
                Err(_) => return None,
            };
            if reader.read_header().is_err() {
                return None;
            }
            Some(collect_groups(reader))
        }));
        match res {
            Err(_) => sh.report(&format!("C10:{fname}:truncation:panic"), format!("{tag} cut={cut}"), "reader panicked".into()),
            Ok(None) => {
                sh.truncations_rejected.fetch_add(1, Ordering::Relaxed);
            }
            Ok(Some((gs, err))) => {
                // every group that was yielded must equal the original group at that index
                let bad = gs.iter().enumerate().find(|(i, g)| *i >= groups.len() || !groups_equal(g, &groups[*i]));
                if let Some((i, g)) = bad {
                    sh.report(
                        &format!("C10:{fname}:truncation:altered-group-accepted"),
                        format!("{tag} cut={cut} of {}", data.len()),
                        format!(
                            "group {i} read as [{}] (error afterwards: {:?})",
                            g.files.iter().map(|p| json_bytes(&pbytes(p))).collect::<Vec<_>>().join(","),
                            err
                        ),
                    );
                } else if err.is_some() {
                    sh.truncations_rejected.fetch_add(1, Ordering::Relaxed);
                } else {
                    sh.truncations_prefix_ok.fetch_add(1, Ordering::Relaxed);
                }
            }
        }
    }
}

fn main() {
    std::panic::set_hook(Box::new(|_| {}));
    let max_len = arg_usize("--max-len", 2);
    let random = arg_usize("--random", 2000);
    let seed = arg_usize("--seed", 1) as u64;
    let threads = arg_usize("--threads", 14);
    let trunc_reports = arg_usize("--trunc", 6);
    let alpha = alphabet();

    let mut strings: Vec<Vec<u8>> = vec![];
    let mut level: Vec<Vec<u8>> = vec![vec![]];
    for _ in 1..=max_len {
        let mut next = vec![];
        for prev in &level {
            for a in &alpha {
                let mut s = prev.clone();
                s.extend_from_slice(a);
                next.push(s);
            }
        }
        strings.extend(next.iter().cloned());
        level = next;
    }
    let n_bounded = strings.len();
    let mut rng = Rng(seed);
    for _ in 0..random {
        let cap = if rng.below(8) == 0 { 4096 } else { 64 };
        let len = 1 + rng.below(cap);
        let mut s = vec![];
        while s.len() < len {
            if rng.below(3) == 0 {
                s.push(1 + rng.below(255) as u8);
            } else {
                s.extend_from_slice(&alpha[rng.below(alpha.len())]);
            }
        }
        strings.push(s);
    }
    let short: Vec<Vec<u8>> = strings.iter().filter(|s| s.len() <= 4 && s.iter().filter(|b| **b < 0x80 || **b >= 0xC0).count() <= 1).cloned().collect();

    let sh = Shared {
        roundtrips: AtomicU64::new(0),
        paths_checked: AtomicU64::new(0),
        headers_checked: AtomicU64::new(0),
        truncations: AtomicU64::new(0),
        truncations_rejected: AtomicU64::new(0),
        truncations_prefix_ok: AtomicU64::new(0),
        violations: Mutex::new(vec![]),
        sig_counts: Mutex::new(BTreeMap::new()),
    };
    let next = AtomicU64::new(0);
    std::thread::scope(|sc| {
        for _ in 0..threads {
            sc.spawn(|| loop {
                let i = next.fetch_add(1, Ordering::Relaxed) as usize;
                if i >= strings.len() {
                    break;
                }
                let s = &strings[i];
                let k = i as u64;
                let plain_header = mk_header(&[b"fclones".to_vec(), b"group".to_vec(), b".".to_vec()], b"/base/dir", k);
                for fmt in 0..2u8 {
                    // (1) s as an absolute and as a relative path inside groups
                    let mut abs = b"/".to_vec();
                    abs.extend_from_slice(s);
                    roundtrip(&sh, fmt, &plain_header, &mk_groups(&abs, k), "abs-path", &abs);
                    // relative paths never occur in real reports; an all-white-space one is
                    // indistinguishable from an empty line and is not generated
                    if !String::from_utf8_lossy(&pbytes(&Path::from(os(s)))).trim().is_empty() {
                        roundtrip(&sh, fmt, &plain_header, &mk_groups(s, k), "rel-path", s);
                    }
                    // (2) s as base dir
                    let hb = mk_header(&[b"fclones".to_vec(), b"group".to_vec()], &abs, k);
                    roundtrip(&sh, fmt, &hb, &mk_groups(b"/x/y", k), "base-dir", &abs);
                    // (3) s as a command argument (alone and after another troublesome argument)
                    let hc = mk_header(&[b"fclones".to_vec(), s.clone()], b"/b", k);
                    roundtrip(&sh, fmt, &hc, &mk_groups(b"/x/y", k), "arg", s);
                    if !short.is_empty() {
                        let other = &short[i % short.len()];
                        let hc2 = mk_header(&[other.clone(), s.clone(), b"z".to_vec()], b"/b", k);
                        roundtrip(&sh, fmt, &hc2, &mk_groups(b"/x/y", k), "arg-pair", s);
                    }
                }
            });
        }
    });

    // truncation sweep over a few small multi-group reports
    let trunc_inputs: Vec<Vec<u8>> = vec![
        b"/t/file_1234".to_vec(),
        b"/t/dir/file with space".to_vec(),
        "/t/ż/😀 x".as_bytes().to_vec(),
        b"/t/nl\nname".to_vec(),
        b"/t/back\\slash".to_vec(),
        b"/t/trailing ".to_vec(),
    ];
    std::thread::scope(|sc| {
        for (i, t) in trunc_inputs.iter().take(trunc_reports).enumerate() {
            let sh = &sh;
            sc.spawn(move || {
                let header = mk_header(&[b"fclones".to_vec(), b"group".to_vec(), b"t".to_vec()], b"/t", i as u64);
                for fmt in 0..2u8 {
                    truncation_sweep(sh, fmt, &header, &mk_groups(t, i as u64), &format!("report{i}"));
                }
            });
        }
    });

    let v = sh.violations.lock().unwrap();
    let sc = sh.sig_counts.lock().unwrap();
    let mut out = String::from("{");
    out.push_str(&format!(
        "\"alphabet\":{},\"max_len\":{},\"bounded_strings\":{},\"random_strings\":{},\"roundtrips\":{},\"paths_checked\":{},\"headers_checked\":{},\"truncations\":{},\"truncations_rejected\":{},\"truncations_prefix_ok\":{},",
        alpha.len(),
        max_len,
        n_bounded,
        random,
        sh.roundtrips.load(Ordering::Relaxed),
        sh.paths_checked.load(Ordering::Relaxed),
        sh.headers_checked.load(Ordering::Relaxed),
        sh.truncations.load(Ordering::Relaxed),
        sh.truncations_rejected.load(Ordering::Relaxed),
        sh.truncations_prefix_ok.load(Ordering::Relaxed)
    ));
    let samples: Vec<String> = (0..5).map(|_| json_bytes(&strings[rng.below(strings.len())][..].iter().take(60).cloned().collect::<Vec<u8>>())).collect();
    out.push_str(&format!("\"samples\":[{}],", samples.join(",")));
    out.push_str("\"signature_counts\":{");
    out.push_str(&sc.iter().map(|(k, n)| format!("{}:{}", json_str(k), n)).collect::<Vec<_>>().join(","));
    out.push_str("},\"violations\":[");
    out.push_str(
        &v.iter()
            .map(|(sig, input, detail)| {
                let d: String = detail.chars().take(600).collect();
                let inp: String = input.chars().take(300).collect();
                format!("{{\"signature\":{},\"input\":{},\"detail\":{}}}", json_str(sig), json_str(&inp), json_str(&d))
            })
            .collect::<Vec<_>>()
            .join(","),
    );
    out.push_str("]}");
    println!("{out}");
}
