//! C17: shell quoting of paths and arguments is lossless.
//!
//! For every string s over an alphabet of troublesome bytes: split(quote(s)) == [s] and bash
//! decodes quote(s) to exactly s; for lists: split(join(xs)) == xs and bash word-splits join(xs)
//! into xs.
use std::collections::BTreeMap;
use std::ffi::OsString;
use std::io::Write;
use std::os::unix::ffi::{OsStrExt, OsStringExt};
use std::panic::{catch_unwind, AssertUnwindSafe};
use std::process::{Command, Stdio};
use std::sync::atomic::{AtomicU64, Ordering};
use std::sync::Mutex;

use fclones::verif_api::{join, quote, split, Arg};
use fcv_harness::{arg_usize, json_bytes, json_str, Rng};

fn alphabet() -> Vec<Vec<u8>> {
    let mut a: Vec<Vec<u8>> = vec![
        b" ".to_vec(),
        b"\t".to_vec(),
        b"\n".to_vec(),
        b"'".to_vec(),
        b"\"".to_vec(),
        b"\\".to_vec(),
        b"$".to_vec(),
        b"`".to_vec(),
        b"~".to_vec(),
        b"*".to_vec(),
        b"#".to_vec(),
        b"!".to_vec(),
        b"=".to_vec(),
        b"a".to_vec(),
        b"-".to_vec(),
    ];
    a.push("ż".as_bytes().to_vec());
    a.push("😀".as_bytes().to_vec());
    a.push(vec![0xFF]);
    a.push(vec![0xC5]);
    a.push(vec![0x7F]);
    a.push(vec![0x01]);
    // white space that is not a shell word delimiter
    a.push(b"\r".to_vec());
    a.push("\u{a0}".as_bytes().to_vec());
    a.push("\u{3000}".as_bytes().to_vec());
    // a four-byte sequence cut after its third byte (invalid, but as long as U+FFFD)
    a.push(vec![0xF0, 0x9F, 0x98]);
    a
}

struct Shared {
    strings: AtomicU64,
    lists: AtomicU64,
    bash_words: AtomicU64,
    bash_scripts: AtomicU64,
    split_ok: AtomicU64,
    path_quotes: AtomicU64,
    violations: Mutex<Vec<(String, Vec<Vec<u8>>, String)>>,
    sig_counts: Mutex<BTreeMap<String, u64>>,
}

impl Shared {
    fn report(&self, sig: &str, input: &[Vec<u8>], detail: String) {
        *self.sig_counts.lock().unwrap().entry(sig.to_string()).or_insert(0) += 1;
        let mut v = self.violations.lock().unwrap();
        if v.iter().filter(|x| x.0 == sig).count() < 5 {
            v.push((sig.to_string(), input.to_vec(), detail));
        }
    }
}

fn os(b: &[u8]) -> OsString {
    OsString::from_vec(b.to_vec())
}

fn classify(xs: &[Vec<u8>], quoted: &str) -> &'static str {
    // structural cause classes, most specific first
    let words: Vec<&str> = quoted.split(' ').collect();
    if xs.len() == words.len() && xs.iter().zip(words.iter()).any(|(x, w)| x.first() == Some(&b'~') && w.starts_with('~')) {
        return "tilde-left-bare";
    }
    if quoted.contains("$'") && !quoted.is_ascii() {
        return "multibyte-with-dollar-quote";
    }
    if quoted.contains("$'") {
        return "dollar-quote";
    }
    if quoted.contains('\'') {
        return "single-quote";
    }
    "bare"
}

/// Checks fclones' own splitter on a list (len 1 = single string).
fn check_split(sh: &Shared, xs: &[Vec<u8>]) -> String {
    let args: Vec<Arg> = xs.iter().map(|x| Arg::from(os(x))).collect();
    let line = if xs.len() == 1 { quote(os(&xs[0])) } else { join(&args) };
    let res = catch_unwind(AssertUnwindSafe(|| split(&line)));
    match res {
        Err(_) => sh.report(
            &format!("C17:split-panic:{}", classify(xs, &line)),
            xs,
            format!("split({}) panicked", json_str(&line)),
        ),
        Ok(Err(e)) => sh.report(
            &format!("C17:split-error:{}", classify(xs, &line)),
            xs,
            format!("split({}) failed: {}", json_str(&line), e),
        ),
        Ok(Ok(words)) => {
            let got: Vec<Vec<u8>> = words.iter().map(|w| w.as_os_str().as_bytes().to_vec()).collect();
            if got != xs {
                sh.report(
                    &format!("C17:split-mismatch:{}", classify(xs, &line)),
                    xs,
                    format!(
                        "split({}) = [{}]",
                        json_str(&line),
                        got.iter().map(|g| json_bytes(g)).collect::<Vec<_>>().join(",")
                    ),
                );
            } else {
                sh.split_ok.fetch_add(1, Ordering::Relaxed);
            }
        }
    }
    line
}

const SENTINEL: &[u8] = b"@@FCV-END@@";

/// Runs one bash script made of `printf '%s\0' <line>; printf '%s\0' SENTINEL` lines and compares.
fn check_bash(sh: &Shared, batch: &[(Vec<Vec<u8>>, String)]) {
    if batch.is_empty() {
        return;
    }
    let mut script = Vec::new();
    for (_, line) in batch {
        script.extend_from_slice(b"printf '%s\\0' ");
        script.extend_from_slice(line.as_bytes());
        script.extend_from_slice(b"\nprintf '%s\\0' @@FCV-END@@\n");
    }
    let mut child = Command::new("/bin/bash")
        .args(["--norc", "--noprofile", "-s"])
        .env_clear()
        .env("LC_ALL", "C")
        .env("HOME", "/nonexistent-fcv")
        .env("PATH", "/nonexistent")
        .current_dir("/")
        .stdin(Stdio::piped())
        .stdout(Stdio::piped())
        .stderr(Stdio::null())
        .spawn()
        .expect("bash");
    let mut stdin = child.stdin.take().unwrap();
    let writer = std::thread::spawn(move || {
        let _ = stdin.write_all(&script);
    });
    let out = child.wait_with_output().expect("bash output");
    let _ = writer.join();
    sh.bash_scripts.fetch_add(1, Ordering::Relaxed);
    // parse: NUL separated words, records end with SENTINEL
    let mut records: Vec<Vec<Vec<u8>>> = vec![];
    let mut cur: Vec<Vec<u8>> = vec![];
    let data = &out.stdout;
    let mut start = 0;
    for (i, &b) in data.iter().enumerate() {
        if b == 0 {
            let w = data[start..i].to_vec();
            start = i + 1;
            if w == SENTINEL {
                records.push(std::mem::take(&mut cur));
            } else {
                cur.push(w);
            }
        }
    }
    for (k, (xs, line)) in batch.iter().enumerate() {
        sh.bash_words.fetch_add(xs.len() as u64, Ordering::Relaxed);
        match records.get(k) {
            None => sh.report(
                &format!("C17:bash-aborted:{}", classify(xs, line)),
                xs,
                format!("bash produced no record for line {}", json_str(line)),
            ),
            Some(got) => {
                if got != xs {
                    sh.report(
                        &format!("C17:bash-mismatch:{}", classify(xs, line)),
                        xs,
                        format!(
                            "bash decodes {} as [{}]",
                            json_str(line),
                            got.iter().map(|g| json_bytes(g)).collect::<Vec<_>>().join(",")
                        ),
                    );
                }
            }
        }
    }
}

fn main() {
    std::panic::set_hook(Box::new(|_| {}));
    let max_len = arg_usize("--max-len", 3);
    let random = arg_usize("--random", 5000);
    let seed = arg_usize("--seed", 1) as u64;
    let threads = arg_usize("--threads", 14);
    let pair_len = arg_usize("--pair-len", 1);
    let alpha = alphabet();
    let n = alpha.len();

    // work items: lists of byte strings
    let mut work: Vec<Vec<Vec<u8>>> = vec![];
    // all strings of length 1..=max_len
    let mut strings_by_len: Vec<Vec<Vec<u8>>> = vec![vec![vec![]]];
    for l in 1..=max_len {
        let mut cur = vec![];
        for prev in &strings_by_len[l - 1] {
            for a in &alpha {
                let mut s = prev.clone();
                s.extend_from_slice(a);
                cur.push(s);
            }
        }
        strings_by_len.push(cur);
    }
    for l in 1..=max_len {
        for s in &strings_by_len[l] {
            work.push(vec![s.clone()]);
        }
    }
    let n_single = work.len();
    // all lists of 2 and 3 strings of length 1
    for a in &strings_by_len[1] {
        for b in &strings_by_len[1] {
            work.push(vec![a.clone(), b.clone()]);
            for c in &strings_by_len[1] {
                work.push(vec![a.clone(), b.clone(), c.clone()]);
            }
        }
    }
    // all pairs of strings of length <= pair_len (2 in the thorough tier)
    if pair_len >= 2 && max_len >= 2 {
        let mut short: Vec<Vec<u8>> = strings_by_len[1].clone();
        short.extend(strings_by_len[2].iter().cloned());
        for a in &short {
            for b in &short {
                if a.len() + b.len() > 2 * 1 {
                    work.push(vec![a.clone(), b.clone()]);
                }
            }
        }
    }
    let n_exhaustive = work.len();
    // random long strings and lists
    let mut rng = Rng(seed);
    for _ in 0..random {
        let k = 1 + rng.below(4);
        let mut xs = vec![];
        for _ in 0..k {
            let cap = if rng.below(10) == 0 { 4096 } else { 40 };
            let len = 1 + rng.below(cap);
            let mut s = vec![];
            while s.len() < len {
                if rng.below(3) == 0 {
                    let b = 1 + rng.below(255) as u8;
                    s.push(b);
                } else {
                    s.extend_from_slice(&alpha[rng.below(n)]);
                }
            }
            xs.push(s);
        }
        work.push(xs);
    }

    let sh = Shared {
        strings: AtomicU64::new(0),
        lists: AtomicU64::new(0),
        bash_words: AtomicU64::new(0),
        bash_scripts: AtomicU64::new(0),
        split_ok: AtomicU64::new(0),
        path_quotes: AtomicU64::new(0),
        violations: Mutex::new(vec![]),
        sig_counts: Mutex::new(BTreeMap::new()),
    };
    let next = AtomicU64::new(0);
    const BATCH: usize = 4000;
    std::thread::scope(|s| {
        for _ in 0..threads {
            s.spawn(|| loop {
                let start = next.fetch_add(BATCH as u64, Ordering::Relaxed) as usize;
                if start >= work.len() {
                    break;
                }
                let end = (start + BATCH).min(work.len());
                let mut batch = Vec::with_capacity(end - start);
                for xs in &work[start..end] {
                    if xs.len() == 1 {
                        sh.strings.fetch_add(1, Ordering::Relaxed);
                    } else {
                        sh.lists.fetch_add(1, Ordering::Relaxed);
                    }
                    let line = check_split(&sh, xs);
                    batch.push((xs.clone(), line));
                    if xs.len() == 1 {
                        // the same string as a path: Path::quote is what the dry-run scripts print
                        let p = fclones::Path::from(os(&xs[0]));
                        let expected = p.to_path_buf().into_os_string().into_vec();
                        if !expected.is_empty() {
                            let pl = p.quote();
                            sh.path_quotes.fetch_add(1, Ordering::Relaxed);
                            match catch_unwind(AssertUnwindSafe(|| split(&pl))) {
                                Ok(Ok(words)) if words.len() == 1 && words[0].as_os_str().as_bytes() == &expected[..] => {}
                                other => sh.report(
                                    &format!("C17:path-quote-split-mismatch:{}", classify(xs, &pl)),
                                    xs,
                                    format!("split(Path::quote) of {} -> {} gave {:?}", json_bytes(&expected), json_str(&pl),
                                            other.map(|r| r.map(|w| w.len()).map_err(|e| e.to_string())).map_err(|_| "panic")),
                                ),
                            }
                            batch.push((vec![expected], pl));
                        }
                    }
                }
                check_bash(&sh, &batch);
            });
        }
    });

    let v = sh.violations.lock().unwrap();
    let sc = sh.sig_counts.lock().unwrap();
    let mut out = String::from("{");
    out.push_str(&format!(
        "\"alphabet\":{},\"max_len\":{},\"single_strings\":{},\"exhaustive_items\":{},\"random_items\":{},\"strings\":{},\"lists\":{},\"bash_words\":{},\"bash_scripts\":{},\"split_ok\":{},\"path_quotes\":{},",
        n,
        max_len,
        n_single,
        n_exhaustive,
        random,
        sh.strings.load(Ordering::Relaxed),
        sh.lists.load(Ordering::Relaxed),
        sh.bash_words.load(Ordering::Relaxed),
        sh.bash_scripts.load(Ordering::Relaxed),
        sh.split_ok.load(Ordering::Relaxed),
        sh.path_quotes.load(Ordering::Relaxed)
    ));
    let samples: Vec<String> = (0..5)
        .map(|_| {
            let xs = &work[rng.below(work.len())];
            format!("[{}]", xs.iter().map(|x| json_bytes(&x[..x.len().min(60)])).collect::<Vec<_>>().join(","))
        })
        .collect();
    out.push_str(&format!("\"samples\":[{}],", samples.join(",")));
    out.push_str("\"signature_counts\":{");
    out.push_str(&sc.iter().map(|(k, n)| format!("{}:{}", json_str(k), n)).collect::<Vec<_>>().join(","));
    out.push_str("},\"violations\":[");
    out.push_str(
        &v.iter()
            .map(|(sig, input, detail)| {
                format!(
                    "{{\"signature\":{},\"input\":[{}],\"detail\":{}}}",
                    json_str(sig),
                    input.iter().map(|x| json_bytes(&x[..x.len().min(200)])).collect::<Vec<_>>().join(","),
                    json_str(detail)
                )
            })
            .collect::<Vec<_>>()
            .join(","),
    );
    out.push_str("]}");
    println!("{out}");
}
