//! C16: globs match as documented; directory pruning is conservative.
//!
//! Bounded-exhaustive sweep of globs (token sequences) x paths, comparing fclones' Pattern /
//! PathSelector (through the verif_api hook) with the reference matcher in fcv_harness::globref.
use std::collections::BTreeMap;
use std::sync::atomic::{AtomicU64, Ordering};
use std::sync::Mutex;

use fclones::verif_api::{PathSelector, Pattern, PatternOpts};
use fclones::Path;
use fcv_harness::globref::{self, Node};
use fcv_harness::{arg_usize, json_str, Rng};

const TOKENS: &[&str] = &[
    "a", "b", ".", "-", "+", "(", "ż", "\\*", "?", "*", "**", "/", "[ab]", "[!a]", "{a,b/}", "@(a|b)", "?(a)",
    "+(ab)", "*(a|.)", "{a|,b}", "@(a,|b)", "$",
];
const COMPONENTS: &[&str] = &["a", "b", ".a", "-", "ż", "ab", "a.b", "a\nb", "a|", "a$"];

struct Stats {
    globs: AtomicU64,
    globs_skipped_undefined: AtomicU64,
    globs_rejected_by_fclones: AtomicU64,
    globs_nontrivial: AtomicU64,
    match_checks: AtomicU64,
    positives: AtomicU64,
    partial_checks: AtomicU64,
    selector_checks: AtomicU64,
    relative_checks: AtomicU64,
    exclude_checks: AtomicU64,
    pruned_dirs: AtomicU64,
    ci_checks: AtomicU64,
    ci_partial_checks: AtomicU64,
}

#[derive(Clone)]
struct Violation {
    signature: String,
    glob: String,
    path: String,
    detail: String,
}

fn ancestors(p: &str) -> Vec<String> {
    // proper ancestor directories of an absolute path, e.g. /a/b/c -> ["/", "/a", "/a/b"]
    let mut out = vec![];
    let bytes: Vec<(usize, char)> = p.char_indices().collect();
    for &(i, c) in &bytes {
        if c == '/' {
            if i == 0 {
                out.push("/".to_string());
            } else {
                out.push(p[..i].to_string());
            }
        }
    }
    out
}

/// Structural cause classes used in violation signatures.
/// "multibyte-literal-prefix": the literal text the pattern starts with (base directory of a
/// relative pattern + leading literal tokens) contains a multi-byte character.
fn feature(glob: &str, path: &str, base: &str) -> &'static str {
    let lead: String = match globref::parse(glob) {
        Some(ast) => ast
            .iter()
            .map_while(|n| if let Node::Lit(c) = n { Some(*c) } else { None })
            .collect(),
        None => String::new(),
    };
    if !base.is_ascii() || !lead.is_ascii() {
        "multibyte-literal-prefix"
    } else if glob.contains("**") && path.contains('\n') {
        "dstar-newline"
    } else {
        "other"
    }
}

/// The literal text a glob starts with, per the reference parser.
fn lead_of(ast: &[Node]) -> String {
    ast.iter().map_while(|n| if let Node::Lit(c) = n { Some(*c) } else { None }).collect()
}

/// The known finding D6 (byte length compared with character count in `is_partial_match`) can only show on a
/// directory path that has more characters than the pattern's literal prefix while one of the two contains a
/// multi-byte character. The ignore-case pruning checks stay outside that class, so that they need no
/// known-finding entry and report anything else that goes wrong there.
fn outside_known_d6(dir_with_slash: &str, lead: &str) -> bool {
    (dir_with_slash.is_ascii() && lead.is_ascii()) || dir_with_slash.chars().count() <= lead.chars().count()
}

fn build_paths(max_comp: usize, extra4: usize, rng: &mut Rng) -> Vec<String> {
    let mut paths = vec![];
    fn rec(cur: &str, depth: usize, max: usize, out: &mut Vec<String>) {
        if depth == max {
            return;
        }
        for c in COMPONENTS {
            let p = format!("{cur}/{c}");
            out.push(p.clone());
            rec(&p, depth + 1, max, out);
        }
    }
    rec("", 0, max_comp, &mut paths);
    for _ in 0..extra4 {
        let mut p = String::new();
        for _ in 0..(max_comp + 1) {
            p.push('/');
            p.push_str(*rng.pick(COMPONENTS));
        }
        paths.push(p);
    }
    paths
}

struct Ctx<'a> {
    paths: &'a [String],
    rel_paths: &'a [String],
    stats: &'a Stats,
    violations: &'a Mutex<Vec<Violation>>,
    sig_counts: &'a Mutex<BTreeMap<String, u64>>,
}

impl Ctx<'_> {
    fn report(&self, kind: &str, glob: &str, path: &str, detail: String) {
        self.report_b(kind, glob, path, "", detail)
    }

    /// like `report`, for check kinds that exclude the known-finding class by construction
    fn report_k(&self, kind: &str, glob: &str, path: &str, detail: String) {
        let signature = format!("C16:{}", kind);
        *self.sig_counts.lock().unwrap().entry(signature.clone()).or_insert(0) += 1;
        let mut v = self.violations.lock().unwrap();
        if v.iter().filter(|x| x.signature == signature).count() < 5 {
            v.push(Violation { signature, glob: glob.to_string(), path: path.to_string(), detail });
        }
    }

    fn report_b(&self, kind: &str, glob: &str, path: &str, base: &str, detail: String) {
        let signature = format!("C16:{}:{}", kind, feature(glob, path, base));
        *self.sig_counts.lock().unwrap().entry(signature.clone()).or_insert(0) += 1;
        let mut v = self.violations.lock().unwrap();
        if v.iter().filter(|x| x.signature == signature).count() < 5 {
            v.push(Violation { signature, glob: glob.to_string(), path: path.to_string(), detail });
        }
    }

    /// A panic anywhere in fclones' pattern code (compilation, matching, pruning) is a violation, not a harness error.
    fn guarded<F: Fn(&Self, &str)>(&self, glob: &str, f: F) {
        let r = std::panic::catch_unwind(std::panic::AssertUnwindSafe(|| f(self, glob)));
        if let Err(e) = r {
            let msg = e
                .downcast_ref::<String>()
                .cloned()
                .or_else(|| e.downcast_ref::<&str>().map(|s| s.to_string()))
                .unwrap_or_else(|| "panic".to_string());
            self.report_k("panic", glob, "", format!("fclones panicked while compiling or matching this documented glob: {}", msg));
        }
    }

    fn check_glob(&self, glob: &str) {
        self.stats.globs.fetch_add(1, Ordering::Relaxed);
        let ast: Vec<Node> = match globref::parse(glob) {
            Some(a) => a,
            None => {
                self.stats.globs_skipped_undefined.fetch_add(1, Ordering::Relaxed);
                return;
            }
        };
        let pat = match Pattern::glob_with(glob, &PatternOpts::default()) {
            Ok(p) => p,
            Err(_) => {
                // a documented construct that fclones refuses to compile
                self.stats.globs_rejected_by_fclones.fetch_add(1, Ordering::Relaxed);
                self.report("rejected", glob, "", "Pattern::glob_with failed on a documented glob".into());
                return;
            }
        };
        let root_sel = PathSelector::new(Path::from("/")).include_paths(vec![pat.clone()]);
        let excl_sel = PathSelector::new(Path::from("/")).exclude_paths(vec![pat.clone()]);
        let absolute = glob.starts_with('/') || glob.starts_with("**");
        let mut expected = Vec::with_capacity(self.paths.len());
        for p in self.paths {
            let want = globref::matches(&ast, p, false);
            expected.push(want);
            if !absolute {
                continue;
            }
            let got = pat.matches(p);
            self.stats.match_checks.fetch_add(1, Ordering::Relaxed);
            if got != want {
                self.report("matches", glob, p, format!("Pattern::matches={got} documented={want}"));
                continue;
            }
            if want {
                self.stats.positives.fetch_add(1, Ordering::Relaxed);
                for d in ancestors(p) {
                    let ds = if d.ends_with('/') { d.clone() } else { format!("{d}/") };
                    self.stats.partial_checks.fetch_add(1, Ordering::Relaxed);
                    if !pat.matches_partially(&ds) {
                        self.report("partial", glob, p, format!("matches_partially({ds:?})=false but {p:?} matches"));
                    }
                    self.stats.selector_checks.fetch_add(1, Ordering::Relaxed);
                    if !root_sel.matches_dir(&Path::from(d.as_str())) {
                        self.report("selector-dir", glob, p, format!("matches_dir({d:?})=false but {p:?} matches"));
                    }
                }
            }
        }
        if expected.iter().any(|x| *x) && expected.iter().any(|x| !*x) {
            self.stats.globs_nontrivial.fetch_add(1, Ordering::Relaxed);
        }
        if absolute {
            // exclude side: a pruned directory may only contain excluded paths
            let mut dirs: Vec<&String> = self.paths.iter().collect();
            dirs.dedup();
            for d in dirs {
                self.stats.exclude_checks.fetch_add(1, Ordering::Relaxed);
                if !excl_sel.matches_dir(&Path::from(d.as_str())) {
                    self.stats.pruned_dirs.fetch_add(1, Ordering::Relaxed);
                    // --exclude is defined on the paths of files ("paths matched fully"); a directory whose own path
                    // matches may be skipped only if that loses no file that is not excluded itself (the pruning
                    // clause of C09/C16), so there is no don't-care here.
                    let prefix = format!("{d}/");
                    for (p, want) in self.paths.iter().zip(expected.iter()) {
                        if p.starts_with(&prefix) && !*want {
                            self.report(
                                "exclude-prune",
                                glob,
                                p,
                                format!("--exclude prunes directory {d:?} although {p:?} below it is not excluded"),
                            );
                            break;
                        }
                    }
                }
            }
        } else {
            // relative pattern: resolved against the base directory
            for base in ["/x-1", "/ż.d/9+", "/B(a)se", "/q[ab]r/c{d,e}f"] {
                let sel = PathSelector::new(Path::from(base)).include_paths(vec![pat.clone()]);
                for rp in self.rel_paths {
                    let want = globref::matches(&ast, rp, false);
                    let full = format!("{base}/{rp}");
                    let got = sel.matches_full_path(&Path::from(full.as_str()));
                    self.stats.relative_checks.fetch_add(1, Ordering::Relaxed);
                    if got != want {
                        self.report_b(
                            "relative",
                            glob,
                            &full,
                            base,
                            format!("base {base:?}: matches_full_path={got} documented={want}"),
                        );
                        continue;
                    }
                    if want {
                        for d in ancestors(&full) {
                            self.stats.selector_checks.fetch_add(1, Ordering::Relaxed);
                            if !sel.matches_dir(&Path::from(d.as_str())) {
                                self.report_b(
                                    "relative-dir",
                                    glob,
                                    &full,
                                    base,
                                    format!("base {base:?}: matches_dir({d:?})=false but {full:?} matches"),
                                );
                            }
                        }
                    }
                }
            }
        }
    }

    fn check_ci(&self, glob: &str) {
        let ast = match globref::parse(glob) {
            Some(a) => a,
            None => return,
        };
        let pat = match Pattern::glob_with(glob, &PatternOpts::case_insensitive()) {
            Ok(p) => p,
            Err(_) => return,
        };
        if !(glob.starts_with('/') || glob.starts_with("**")) {
            // relative + ignore-case: the base directory is prepended
            let base = "/x-1";
            let sel = PathSelector::new(Path::from(base)).include_paths(vec![pat.clone()]);
            for rp in self.rel_paths.iter().take(200) {
                let up = rp.to_uppercase();
                let want = globref::matches(&ast, &up, true);
                let full = format!("{base}/{up}");
                let got = sel.matches_full_path(&Path::from(full.as_str()));
                self.stats.ci_checks.fetch_add(1, Ordering::Relaxed);
                if got != want {
                    self.report_b("ignore-case-relative", glob, &full, base, format!("ci matches_full_path={got} documented={want}"));
                    continue;
                }
                if want {
                    let lead = format!("{base}/{}", lead_of(&ast));
                    for d in ancestors(&full) {
                        let ds = if d.ends_with('/') { d.clone() } else { format!("{d}/") };
                        if !outside_known_d6(&ds, &lead) {
                            continue;
                        }
                        self.stats.ci_partial_checks.fetch_add(1, Ordering::Relaxed);
                        if !sel.matches_dir(&Path::from(d.as_str())) {
                            self.report_k("ignore-case-relative-dir", glob, &full, format!("ci base {base:?}: matches_dir({d:?})=false but {full:?} matches"));
                        }
                    }
                }
            }
            return;
        }
        let lead = lead_of(&ast);
        let ci_sel = PathSelector::new(Path::from("/")).include_paths(vec![pat.clone()]);
        for p in self.paths.iter().take(600) {
            for variant in [p.to_uppercase(), p.clone()] {
                let want = globref::matches(&ast, &variant, true);
                let got = pat.matches(&variant);
                self.stats.ci_checks.fetch_add(1, Ordering::Relaxed);
                if got != want {
                    self.report("ignore-case", glob, &variant, format!("ci matches={got} documented={want}"));
                    continue;
                }
                if !want {
                    continue;
                }
                // pruning must stay conservative under --ignore-case as well
                for d in ancestors(&variant) {
                    let ds = if d.ends_with('/') { d.clone() } else { format!("{d}/") };
                    if !outside_known_d6(&ds, &lead) {
                        continue;
                    }
                    self.stats.ci_partial_checks.fetch_add(1, Ordering::Relaxed);
                    if !pat.matches_partially(&ds) {
                        self.report_k("ignore-case-partial", glob, &variant, format!("ci matches_partially({ds:?})=false but {variant:?} matches"));
                    }
                    if !ci_sel.matches_dir(&Path::from(d.as_str())) {
                        self.report_k("ignore-case-selector-dir", glob, &variant, format!("ci matches_dir({d:?})=false but {variant:?} matches"));
                    }
                }
            }
        }
    }
}

fn nth_glob(mut idx: u64, len: usize) -> String {
    let mut s = String::new();
    for _ in 0..len {
        s.push_str(TOKENS[(idx % TOKENS.len() as u64) as usize]);
        idx /= TOKENS.len() as u64;
    }
    s
}

fn main() {
    std::panic::set_hook(Box::new(|_| {})); // panics are caught and reported as violations, not printed one by one
    let max_tokens = arg_usize("--max-tokens", 3);
    let random_globs = arg_usize("--random", 2000);
    let seed = arg_usize("--seed", 1) as u64;
    let threads = arg_usize("--threads", 14);
    let mut rng = Rng(seed);
    let paths = build_paths(3, 300, &mut rng);
    let rel_paths: Vec<String> = paths.iter().take(paths.len() - 300).map(|p| p[1..].to_string()).collect();

    let stats = Stats {
        globs: AtomicU64::new(0),
        globs_skipped_undefined: AtomicU64::new(0),
        globs_rejected_by_fclones: AtomicU64::new(0),
        globs_nontrivial: AtomicU64::new(0),
        match_checks: AtomicU64::new(0),
        positives: AtomicU64::new(0),
        partial_checks: AtomicU64::new(0),
        selector_checks: AtomicU64::new(0),
        relative_checks: AtomicU64::new(0),
        exclude_checks: AtomicU64::new(0),
        pruned_dirs: AtomicU64::new(0),
        ci_checks: AtomicU64::new(0),
        ci_partial_checks: AtomicU64::new(0),
    };
    let violations = Mutex::new(Vec::new());
    let sig_counts = Mutex::new(BTreeMap::new());

    // work list: (absolute?, glob). Absolute globs get a "/" or "**/" prefix so that they can match
    // the absolute paths; every token sequence is also used as a relative glob.
    let mut work: Vec<String> = vec![];
    for len in 1..=max_tokens {
        let total = (TOKENS.len() as u64).pow(len as u32);
        for idx in 0..total {
            let g = nth_glob(idx, len);
            work.push(format!("/{g}"));
            if len < max_tokens {
                work.push(format!("**/{g}"));
                work.push(g);
            }
        }
    }
    let exhaustive_count = work.len();
    for _ in 0..random_globs {
        let len = max_tokens + 1 + rng.below(3);
        let mut g = String::new();
        for _ in 0..len {
            g.push_str(*rng.pick(TOKENS));
        }
        match rng.below(3) {
            0 => work.push(format!("/{g}")),
            1 => work.push(format!("**/{g}")),
            _ => work.push(g),
        }
    }
    let samples: Vec<String> = (0..6).map(|_| work[rng.below(work.len())].clone()).collect();

    let next = AtomicU64::new(0);
    std::thread::scope(|s| {
        for _ in 0..threads {
            s.spawn(|| {
                let ctx = Ctx { paths: &paths, rel_paths: &rel_paths, stats: &stats, violations: &violations, sig_counts: &sig_counts };
                loop {
                    let i = next.fetch_add(1, Ordering::Relaxed) as usize;
                    if i >= work.len() {
                        break;
                    }
                    ctx.guarded(&work[i], |c, g| c.check_glob(g));
                    // a pseudo-random 1/8 of the globs (1/2 of those with a non-ASCII literal) also go through the
                    // --ignore-case checks; `i % 7` would alias with the enumeration order of the token sequences
                    let h = (i as u64 ^ seed).wrapping_mul(0x9E3779B97F4A7C15) >> 61;
                    if h == 0 || (!work[i].is_ascii() && h < 4) {
                        ctx.guarded(&work[i], |c, g| c.check_ci(g));
                    }
                }
            });
        }
    });

    let v = violations.lock().unwrap();
    let sc = sig_counts.lock().unwrap();
    let mut out = String::from("{");
    out.push_str(&format!("\"max_tokens\":{max_tokens},\"exhaustive_globs\":{exhaustive_count},\"random_globs\":{random_globs},"));
    out.push_str(&format!("\"paths\":{},\"rel_paths\":{},", paths.len(), rel_paths.len()));
    let st = &stats;
    for (k, a) in [
        ("globs", &st.globs),
        ("globs_skipped_undefined", &st.globs_skipped_undefined),
        ("globs_rejected_by_fclones", &st.globs_rejected_by_fclones),
        ("globs_nontrivial", &st.globs_nontrivial),
        ("match_checks", &st.match_checks),
        ("positives", &st.positives),
        ("partial_checks", &st.partial_checks),
        ("selector_checks", &st.selector_checks),
        ("relative_checks", &st.relative_checks),
        ("exclude_checks", &st.exclude_checks),
        ("pruned_dirs", &st.pruned_dirs),
        ("ci_checks", &st.ci_checks),
        ("ci_partial_checks", &st.ci_partial_checks),
    ] {
        out.push_str(&format!("\"{k}\":{},", a.load(Ordering::Relaxed)));
    }
    out.push_str("\"samples\":[");
    out.push_str(&samples.iter().map(|s| json_str(s)).collect::<Vec<_>>().join(","));
    out.push_str("],\"signature_counts\":{");
    out.push_str(&sc.iter().map(|(k, n)| format!("{}:{}", json_str(k), n)).collect::<Vec<_>>().join(","));
    out.push_str("},\"violations\":[");
    out.push_str(
        &v.iter()
            .map(|x| {
                format!(
                    "{{\"signature\":{},\"glob\":{},\"path\":{},\"detail\":{}}}",
                    json_str(&x.signature),
                    json_str(&x.glob),
                    json_str(&x.path),
                    json_str(&x.detail)
                )
            })
            .collect::<Vec<_>>()
            .join(","),
    );
    out.push_str("]}");
    println!("{out}");
}
