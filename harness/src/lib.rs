//! Shared helpers for the harness binaries: reference glob matcher, PRNG, JSON output.

pub mod globref {
    //! Reference matcher for the glob dialect documented in fclones' README ("Path Globbing").
    //! A backtracking matcher over a small AST; shares no code with fclones' pattern.rs.

    #[derive(Debug, Clone)]
    pub enum Node {
        Lit(char),
        Any1,
        Star,
        DStar,
        Cls(bool, Vec<(char, char)>),
        Grp(Kind, Vec<Vec<Node>>),
    }

    #[derive(Debug, Clone, Copy, PartialEq)]
    pub enum Kind {
        Once,
        Opt,
        Plus,
        Many,
    }

    /// Parses a glob; None if it uses constructs the documentation does not define
    /// (unbalanced brackets, `!()`, `[^..]`, empty class, dangling escape).
    pub fn parse(glob: &str) -> Option<Vec<Node>> {
        // `**(` can be read as `**` + `(` or as `*` + `*(`: the documentation does not say which
        if glob.contains("**(") {
            return None;
        }
        let g: Vec<char> = glob.chars().collect();
        let (seq, i) = parse_seq(&g, 0, "")?;
        if i != g.len() {
            return None;
        }
        Some(seq)
    }

    fn parse_seq(g: &[char], mut i: usize, stop: &str) -> Option<(Vec<Node>, usize)> {
        let mut out = Vec::new();
        let n = g.len();
        while i < n {
            let c = g[i];
            if stop.contains(c) {
                break;
            }
            match c {
                '\\' => {
                    if i + 1 >= n {
                        return None;
                    }
                    out.push(Node::Lit(g[i + 1]));
                    i += 2;
                }
                '{' => {
                    let (alts, j) = parse_alts(g, i + 1, ',', '}')?;
                    out.push(Node::Grp(Kind::Once, alts));
                    i = j;
                }
                '@' | '?' | '+' | '*' | '!' if i + 1 < n && g[i + 1] == '(' => {
                    if c == '!' {
                        return None;
                    }
                    let (alts, j) = parse_alts(g, i + 2, '|', ')')?;
                    let kind = match c {
                        '@' => Kind::Once,
                        '?' => Kind::Opt,
                        '+' => Kind::Plus,
                        _ => Kind::Many,
                    };
                    out.push(Node::Grp(kind, alts));
                    i = j;
                }
                '*' => {
                    if i + 1 < n && g[i + 1] == '*' {
                        out.push(Node::DStar);
                        i += 2;
                    } else {
                        out.push(Node::Star);
                        i += 1;
                    }
                }
                '?' => {
                    out.push(Node::Any1);
                    i += 1;
                }
                '[' => {
                    let j = (i + 1..n).find(|&k| g[k] == ']')?;
                    let mut body: &[char] = &g[i + 1..j];
                    let neg = body.first() == Some(&'!');
                    if neg {
                        body = &body[1..];
                    }
                    if body.is_empty() || body[0] == '^' {
                        return None;
                    }
                    let mut ranges = Vec::new();
                    let mut k = 0;
                    while k < body.len() {
                        if k + 2 < body.len() && body[k + 1] == '-' {
                            ranges.push((body[k], body[k + 2]));
                            k += 3;
                        } else {
                            ranges.push((body[k], body[k]));
                            k += 1;
                        }
                    }
                    out.push(Node::Cls(neg, ranges));
                    i = j + 1;
                }
                '}' | ')' | ']' if stop.is_empty() => return None,
                // a bare parenthesis / brace inside a group is not defined by the documentation
                '(' | '{' if !stop.is_empty() => return None,
                _ => {
                    out.push(Node::Lit(c));
                    i += 1;
                }
            }
        }
        Some((out, i))
    }

    fn parse_alts(g: &[char], mut i: usize, sep: char, close: char) -> Option<(Vec<Vec<Node>>, usize)> {
        let mut alts = Vec::new();
        let stop: String = [sep, close].iter().collect();
        loop {
            let (seq, j) = parse_seq(g, i, &stop)?;
            alts.push(seq);
            if j >= g.len() {
                return None;
            }
            if g[j] == close {
                return Some((alts, j + 1));
            }
            i = j + 1;
        }
    }

    fn ch_eq(a: char, b: char, ci: bool) -> bool {
        if a == b {
            return true;
        }
        ci && (a.to_lowercase().eq(b.to_lowercase()) || a.to_uppercase().eq(b.to_uppercase()))
    }

    fn in_cls(c: char, ranges: &[(char, char)], ci: bool) -> bool {
        let test = |c: char| ranges.iter().any(|&(lo, hi)| lo <= c && c <= hi);
        if test(c) {
            return true;
        }
        if ci {
            for l in c.to_lowercase() {
                if test(l) {
                    return true;
                }
            }
            for u in c.to_uppercase() {
                if test(u) {
                    return true;
                }
            }
        }
        false
    }

    /// Matches seq[k..] against s[i..]; calls cont(j) for each candidate end.
    fn m(seq: &[Node], k: usize, s: &[char], i: usize, ci: bool, cont: &mut dyn FnMut(usize) -> bool) -> bool {
        if k == seq.len() {
            return cont(i);
        }
        let n = s.len();
        match &seq[k] {
            Node::Lit(c) => i < n && ch_eq(s[i], *c, ci) && m(seq, k + 1, s, i + 1, ci, cont),
            Node::Any1 => i < n && s[i] != '/' && m(seq, k + 1, s, i + 1, ci, cont),
            Node::Cls(neg, ranges) => {
                if i >= n {
                    return false;
                }
                let hit = in_cls(s[i], ranges, ci) != *neg;
                hit && m(seq, k + 1, s, i + 1, ci, cont)
            }
            Node::Star => {
                let mut j = i;
                loop {
                    if m(seq, k + 1, s, j, ci, cont) {
                        return true;
                    }
                    if j < n && s[j] != '/' {
                        j += 1;
                    } else {
                        return false;
                    }
                }
            }
            Node::DStar => {
                for j in i..=n {
                    if m(seq, k + 1, s, j, ci, cont) {
                        return true;
                    }
                }
                false
            }
            Node::Grp(kind, alts) => {
                match kind {
                    Kind::Once => {
                        for a in alts {
                            if m(a, 0, s, i, ci, &mut |j| m(seq, k + 1, s, j, ci, cont)) {
                                return true;
                            }
                        }
                        false
                    }
                    Kind::Opt => {
                        if m(seq, k + 1, s, i, ci, cont) {
                            return true;
                        }
                        for a in alts {
                            if m(a, 0, s, i, ci, &mut |j| m(seq, k + 1, s, j, ci, cont)) {
                                return true;
                            }
                        }
                        false
                    }
                    Kind::Many => many(seq, k, alts, s, i, ci, cont, 0),
                    Kind::Plus => {
                        for a in alts {
                            if m(a, 0, s, i, ci, &mut |j| many(seq, k, alts, s, j, ci, cont, 0)) {
                                return true;
                            }
                        }
                        false
                    }
                }
            }
        }
    }

    #[allow(clippy::too_many_arguments)]
    fn many(
        seq: &[Node],
        k: usize,
        alts: &[Vec<Node>],
        s: &[char],
        start: usize,
        ci: bool,
        cont: &mut dyn FnMut(usize) -> bool,
        depth: usize,
    ) -> bool {
        if m(seq, k + 1, s, start, ci, cont) {
            return true;
        }
        if depth > s.len() + 1 {
            return false;
        }
        for a in alts {
            if m(a, 0, s, start, ci, &mut |j| j > start && many(seq, k, alts, s, j, ci, cont, depth + 1)) {
                return true;
            }
        }
        false
    }

    pub fn matches(seq: &[Node], s: &str, ci: bool) -> bool {
        let chars: Vec<char> = s.chars().collect();
        let n = chars.len();
        m(seq, 0, &chars, 0, ci, &mut |j| j == n)
    }
}

/// splitmix64-based PRNG (no external crates)
pub struct Rng(pub u64);

impl Rng {
    pub fn next(&mut self) -> u64 {
        self.0 = self.0.wrapping_add(0x9E3779B97F4A7C15);
        let mut z = self.0;
        z = (z ^ (z >> 30)).wrapping_mul(0xBF58476D1CE4E5B9);
        z = (z ^ (z >> 27)).wrapping_mul(0x94D049BB133111EB);
        z ^ (z >> 31)
    }
    pub fn below(&mut self, n: usize) -> usize {
        (self.next() % (n as u64)) as usize
    }
    pub fn pick<'a, T>(&mut self, v: &'a [T]) -> &'a T {
        &v[self.below(v.len())]
    }
}

pub fn json_str(s: &str) -> String {
    let mut out = String::from("\"");
    for c in s.chars() {
        match c {
            '"' => out.push_str("\\\""),
            '\\' => out.push_str("\\\\"),
            '\n' => out.push_str("\\n"),
            '\r' => out.push_str("\\r"),
            '\t' => out.push_str("\\t"),
            c if (c as u32) < 0x20 || c == '\u{7f}' => out.push_str(&format!("\\u{:04x}", c as u32)),
            c => out.push(c),
        }
    }
    out.push('"');
    out
}

pub fn json_bytes(b: &[u8]) -> String {
    // bytes rendered as a JSON string of \u00XX escapes for non-ASCII (latin-1 view)
    let mut out = String::from("\"");
    for &c in b {
        match c {
            b'"' => out.push_str("\\\""),
            b'\\' => out.push_str("\\\\"),
            0x20..=0x7e => out.push(c as char),
            _ => out.push_str(&format!("\\u{:04x}", c)),
        }
    }
    out.push('"');
    out
}

/// Parses `--key value` style arguments.
pub fn arg_value(name: &str) -> Option<String> {
    let args: Vec<String> = std::env::args().collect();
    args.iter().position(|a| a == name).and_then(|i| args.get(i + 1).cloned())
}

pub fn arg_usize(name: &str, default: usize) -> usize {
    arg_value(name).and_then(|v| v.parse().ok()).unwrap_or(default)
}
