"""Parsing of the shim's event log and construction of fault plans."""
import os
import re


def unesc(s):
    if s == "-":
        return b""
    out = bytearray()
    i = 0
    b = s.encode("ascii", "replace")
    while i < len(b):
        if b[i] == 0x25 and i + 2 < len(b) + 0:
            out.append(int(b[i + 1:i + 3], 16))
            i += 3
        else:
            out.append(b[i])
            i += 1
    return bytes(out)


def _norm(p):
    """Lexical normalisation of absolute paths (fclones builds e.g. DIR/./abs/path)."""
    if p.startswith(b"/"):
        return os.path.normpath(p)
    return p


class Event:
    __slots__ = ("seq", "pid", "tid", "op", "cls", "ret", "errno", "x", "p1", "p2")

    def __repr__(self):
        return "<%d %s %s ret=%d errno=%d x=%d %r %r>" % (self.seq, self.op, self.cls, self.ret, self.errno, self.x,
                                                         self.p1, self.p2)

    def as_dict(self):
        return {"seq": self.seq, "op": self.op, "cls": self.cls, "ret": self.ret, "errno": self.errno, "x": self.x,
                "p1": self.p1, "p2": self.p2}


LINE = re.compile(r"^(\d+) (\d+) (\d+) (\S+) (MUT|READ|LOCK) ret=(-?\d+) errno=(\d+) x=(-?\d+) (\S+)(?: (\S*))?$")
FIRED = re.compile(r"^FIRED rule=(\d+) seq=(\d+) action=(\S+) pid=(\d+)$")


def parse(path):
    """Returns (events, fired) from a shim log file. Unparsable lines are kept in `junk`."""
    events, fired, junk = [], [], []
    try:
        with open(path, "r", encoding="ascii", errors="replace") as f:
            lines = f.read().split("\n")
    except FileNotFoundError:
        return [], [], []
    for l in lines:
        if not l:
            continue
        m = LINE.match(l)
        if m:
            e = Event()
            e.seq = int(m.group(1))
            e.pid = int(m.group(2))
            e.tid = int(m.group(3))
            e.op = m.group(4)
            e.cls = m.group(5)
            e.ret = int(m.group(6))
            e.errno = int(m.group(7))
            e.x = int(m.group(8))
            e.p1 = _norm(unesc(m.group(9)))
            e.p2 = _norm(unesc(m.group(10))) if m.group(10) is not None else None
            if e.op == "symlink" and m.group(10) is not None:
                e.p2 = unesc(m.group(10))  # a link target is stored verbatim
            events.append(e)
            continue
        m = FIRED.match(l)
        if m:
            fired.append({"rule": int(m.group(1)), "seq": int(m.group(2)), "action": m.group(3), "pid": int(m.group(4))})
            continue
        junk.append(l)
    return events, fired, junk


def rule(ops, path_sub=b"", nth=0, action="killb", exact=False):
    """One plan rule. ops: 'MUT' | 'READ' | 'ANY' | comma list of op names. exact: path1 must equal path_sub."""
    return "%s|%s%s|%d|%s" % (ops, "=" if exact else "", path_sub.hex(), nth, action)


def plan(*rules):
    return ";".join(rules)


def shim_env(log, roots, plan_str=None, ficlone=False):
    from . import common
    e = {"LD_PRELOAD": common.SHIM, "FCV_LOG": log,
         "FCV_ROOTS": ":".join(r if isinstance(r, str) else r.decode("utf-8", "surrogateescape") for r in roots)}
    if plan_str:
        e["FCV_PLAN"] = plan_str
    if ficlone:
        e["FCV_FICLONE"] = "emulate"
    return e


def mutated_paths(e):
    """Paths whose entry or content a (successful) mutating event changes."""
    if e.op in ("copy_file_range", "sendfile", "ficlone", "symlink"):
        return [e.p1]
    if e.op in ("rename", "link"):
        return [p for p in (e.p1, e.p2) if p]
    return [e.p1]
