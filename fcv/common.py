"""Shared plumbing: paths, pinned environment, running fclones, verdict accounting, evidence."""
import hashlib
import json
import os
import random
import shutil
import subprocess
import sys
import tempfile
import time

VERIF = os.path.dirname(os.path.dirname(os.path.abspath(__file__)))
REPO = os.environ.get("FCV_REPO", "/repo")
BUILD = os.path.join(VERIF, "build")
EVIDENCE = os.path.join(VERIF, "evidence")
REPLAYS = os.path.join(VERIF, "replays")
HELPERS = os.path.join(VERIF, "fcv", "helpers")
SHIM = os.path.join(BUILD, "libfcvshim.so")
KNOWN = os.path.join(VERIF, "known_findings.json")

EXT4_BASE = "/tmp"
TMPFS_BASE = "/dev/shm"


def seed_from_env():
    try:
        return int(os.environ.get("VERIF_SEED", "1"))
    except ValueError:
        return 1


def fsd(b):
    """bytes -> str that survives JSON (surrogateescape)."""
    return os.fsdecode(b) if isinstance(b, (bytes, bytearray)) else b


def fse(s):
    return os.fsencode(s) if isinstance(s, str) else s


class Scratch:
    """Per-process scratch roots on ext4 (/tmp) and tmpfs (/dev/shm), removed on exit."""

    def __init__(self, tag):
        self.tag = tag
        self.roots = {}
        self.counter = 0

    def root(self, fs="ext4"):
        if fs not in self.roots:
            base = EXT4_BASE if fs == "ext4" else TMPFS_BASE
            self.roots[fs] = tempfile.mkdtemp(prefix="fcv-%s-%d-" % (self.tag, os.getpid()), dir=base)
        return self.roots[fs]

    def case_dir(self, fs="ext4"):
        self.counter += 1
        d = os.path.join(self.root(fs), "c%d" % self.counter)
        os.makedirs(d)
        return d

    def mount_tmpfs(self, dirs):
        """Mounts a fresh tmpfs on each of the (existing) directories, inside a mount namespace private to this
        process, so that nothing leaks even if the process dies. Returns False where that is not permitted."""
        if not _private_mount_ns():
            return False
        done = []
        for d in dirs:
            if _libc().mount(b"tmpfs", fse(d), b"tmpfs", 0, b"size=256m") != 0:
                for x in done:
                    _libc().umount2(fse(x), 2)
                return False
            done.append(d)
        self.mounts = getattr(self, "mounts", []) + done
        return True

    def mount_bind(self, src, dst):
        """Bind-mounts directory src on directory dst (both exist) in the private mount namespace: another mount point of
        the same block device, which programs that read the mount table take for a different file system location."""
        if not _private_mount_ns():
            return False
        if _libc().mount(fse(src), fse(dst), None, 4096, None) != 0:
            return False
        self.mounts = getattr(self, "mounts", []) + [dst]
        return True

    def cleanup(self):
        for m in reversed(getattr(self, "mounts", [])):
            _libc().umount2(fse(m), 2)  # MNT_DETACH
        self.mounts = []
        for r in self.roots.values():
            rmtree(r)
        self.roots = {}


_LIBC = None
_PRIVATE_NS = None


def _libc():
    global _LIBC
    if _LIBC is None:
        import ctypes
        _LIBC = ctypes.CDLL(None, use_errno=True)
    return _LIBC


def _private_mount_ns():
    """unshare(CLONE_NEWNS) + make everything private, once per process."""
    global _PRIVATE_NS
    if _PRIVATE_NS is None:
        try:
            ok = _libc().unshare(0x00020000) == 0 and _libc().mount(b"none", b"/", None, 16384 | (1 << 18), None) == 0
        except Exception:
            ok = False
        _PRIVATE_NS = ok
    return _PRIVATE_NS


def rmtree(path):
    def onerr(func, p, exc):
        try:
            os.chmod(os.path.dirname(p), 0o700)
            os.chmod(p, 0o700)
            func(p)
        except Exception:
            pass
    if os.path.lexists(path):
        if os.path.isdir(path) and not os.path.islink(path):
            shutil.rmtree(path, onerror=onerr)
        else:
            os.unlink(path)


def pinned_env(home, extra=None):
    """Environment for every fclones process started by the machinery."""
    os.makedirs(home, exist_ok=True)
    tmpd = os.path.join(home, "tmp")
    os.makedirs(tmpd, exist_ok=True)
    env = {
        "PATH": HELPERS + ":/usr/local/sbin:/usr/local/bin:/usr/sbin:/usr/bin:/sbin:/bin",
        "HOME": home,
        "XDG_CACHE_HOME": os.path.join(home, ".cache"),
        "XDG_CONFIG_HOME": os.path.join(home, ".config"),
        "TMPDIR": tmpd,
        "TZ": "UTC",
        "LC_ALL": "C.UTF-8",
        "LANG": "C.UTF-8",
        "RUST_BACKTRACE": "0",
        "NO_COLOR": "1",
    }
    if extra:
        env.update(extra)
    return {k: v for k, v in env.items() if v is not None}


def ambient_env(r, elsewhere="/"):
    """Settings a user's shell may export and that must not change what fclones prints or does: colour conventions,
    terminal type, locale, a PWD that does not name the working directory (as left behind by env -C, make -C,
    find -execdir, a supervisor that chdir()s). A value of None removes the variable."""
    e = {}
    c = r.random()
    if c < 0.3:
        e.update({"NO_COLOR": None, "CLICOLOR_FORCE": "1"})
    elif c < 0.4:
        e.update({"NO_COLOR": None, "CLICOLOR": "1", "TERM": "xterm-256color"})
    elif c < 0.5:
        e.update({"NO_COLOR": None})
    if r.random() < 0.3:
        e["PWD"] = elsewhere
    if r.random() < 0.2:
        e.update({"LC_ALL": r.choice(["C", "POSIX", "en_US.UTF-8"]), "LANG": "C"})
    if r.random() < 0.2:
        e["COLUMNS"] = r.choice(["20", "400"])
    return e


class RunResult:
    def __init__(self, rc, out, err, wall, timed_out=False):
        self.rc = rc
        self.out = out
        self.err = err
        self.wall = wall
        self.timed_out = timed_out

    def err_text(self):
        return self.err.decode("utf-8", "replace")

    def warnings(self):
        return [l for l in self.err_text().splitlines() if "warn:" in l]


def run(argv, env, cwd=None, stdin=None, timeout=120):
    """Run a command with bytes argv; returns RunResult. A timeout is reported, never raised."""
    t0 = time.time()
    try:
        p = subprocess.run(argv, env=env, cwd=cwd, input=stdin if stdin is not None else b"",
                           stdout=subprocess.PIPE, stderr=subprocess.PIPE, timeout=timeout)
        return RunResult(p.returncode, p.stdout, p.stderr, time.time() - t0)
    except subprocess.TimeoutExpired as e:
        return RunResult(None, e.stdout or b"", e.stderr or b"", time.time() - t0, timed_out=True)


def _variant_dir(variant):
    d = os.path.join(BUILD, variant)
    if REPO != "/repo":
        d += "-" + hashlib.sha1(REPO.encode()).hexdigest()[:8]
    return d


def fclones_bin(variant="rel"):
    if variant == "rel":
        return os.path.join(_variant_dir("rel"), "release", "fclones")
    if variant == "asan":
        return os.path.join(BUILD, "asan", "x86_64-unknown-linux-gnu", "release", "fclones")
    if variant == "tsan":
        return os.path.join(BUILD, "tsan", "x86_64-unknown-linux-gnu", "release", "fclones")
    raise ValueError(variant)


def load_known():
    try:
        with open(KNOWN) as f:
            data = json.load(f)
    except FileNotFoundError:
        return {}
    out = {}
    for e in data.get("findings", []):
        if e.get("fixed"):
            continue
        out[(e["property"], e["signature"])] = e
    return out


class Check:
    """Verdict accounting for one property run (three-valued, evidence, replay files)."""

    def __init__(self, pid, level, tier, seed, rule, assumptions=None):
        self.pid = pid
        self.level = level
        self.tier = tier
        self.seed = seed
        self.rule = rule
        self.assumptions = assumptions or []
        self.t0 = time.time()
        self.evaluations = 0
        self.nontrivial = set()
        self.samples = []
        self.violations = []
        self.inconclusive = {}
        self.known_hits = {}
        self.extra = {}
        self.known = load_known()
        self.max_samples = 4
        self.max_violation_reports = 10
        self.exhaustive = None
        self._auto_sample = []
        os.makedirs(EVIDENCE, exist_ok=True)

    # -- counting ---------------------------------------------------------------------------
    def ok(self, signature=None, sample=None):
        """A conclusive case on which the oracle held. `signature` (hashable) marks it as a
        non-trivial case; distinct signatures are what distinct_nontrivial counts."""
        self.evaluations += 1
        if signature is not None:
            self.nontrivial.add(_sig(signature))
        if sample is not None and len(self.samples) < self.max_samples:
            self.samples.append(sample)
        elif sample is None and signature is not None and not self.samples and not self._auto_sample:
            self._auto_sample = [{"case_signature": repr(signature)[:400]}]

    def count(self, key, n=1):
        self.extra[key] = self.extra.get(key, 0) + n

    def note_inconclusive(self, reason):
        self.inconclusive[reason] = self.inconclusive.get(reason, 0) + 1

    def violation(self, signature, summary, witness, nontrivial_sig=None):
        """Report a violated case. If (property, signature) is a listed known finding it is
        printed as KNOWN-FINDING once and counted; otherwise a replay file is written and a
        VIOLATION line printed."""
        self.evaluations += 1
        if nontrivial_sig is not None:
            self.nontrivial.add(_sig(nontrivial_sig))
        key = (self.pid, signature)
        if key in self.known:
            if signature not in self.known_hits:
                print("KNOWN-FINDING: property=%s %s [%s]" % (self.pid, self.known[key]["summary"], signature))
                sys.stdout.flush()
            self.known_hits[signature] = self.known_hits.get(signature, 0) + 1
            return False
        n = len(self.violations)
        self.violations.append({"signature": signature, "summary": summary})
        if n < self.max_violation_reports:
            d = os.path.join(REPLAYS, self.pid)
            os.makedirs(d, exist_ok=True)
            path = os.path.join(d, "%s-%d-%d.json" % (self.tier, self.seed, n))
            with open(path, "w") as f:
                json.dump({"property": self.pid, "signature": signature, "summary": summary,
                           "seed": self.seed, "tier": self.tier, "witness": witness}, f, indent=1,
                          default=_json_default)
            print("VIOLATION property=%s replay=%s" % (self.pid, path))
            print("  signature: %s" % signature)
            print("  summary: %s" % summary)
            sys.stdout.flush()
        return True

    # -- finishing --------------------------------------------------------------------------
    def finish(self):
        cov = {
            "evaluations": self.evaluations,
            "distinct_nontrivial": len(self.nontrivial),
            "rule": self.rule,
            "samples": self.samples or self._auto_sample,
            "inconclusive": sum(self.inconclusive.values()),
            "inconclusive_reasons": self.inconclusive,
            "known_findings_hit": self.known_hits,
        }
        if self.exhaustive is not None:
            cov["exhaustive"] = self.exhaustive
        cov.update(self.extra)
        ev = {
            "property_id": self.pid,
            "tier": self.tier,
            "seed": self.seed,
            "level": self.level,
            "coverage": cov,
            "assumptions": self.assumptions,
            "wall_s": round(time.time() - self.t0, 2),
            "violations": len(self.violations),
        }
        path = os.path.join(EVIDENCE, "%s.json" % self.pid)
        tmp = path + ".tmp%d" % os.getpid()
        with open(tmp, "w") as f:
            json.dump(ev, f, indent=1, default=_json_default)
        os.replace(tmp, path)
        print("%s %s seed=%d: evaluations=%d distinct_nontrivial=%d violations=%d known=%d inconclusive=%d wall=%.1fs"
              % (self.pid, self.tier, self.seed, self.evaluations, len(self.nontrivial),
                 len(self.violations), sum(self.known_hits.values()),
                 sum(self.inconclusive.values()), time.time() - self.t0))
        for k, v in sorted(self.extra.items()):
            if isinstance(v, (int, float, str)):
                print("   %s = %s" % (k, v))
        if self.inconclusive:
            print("   inconclusive: %s" % json.dumps(self.inconclusive))
        if self.violations:
            return 1
        if self.evaluations == 0 or len(self.nontrivial) < 2:
            print("HARNESS-ERROR property=%s observed too little to conclude (evaluations=%d, nontrivial=%d)"
                  % (self.pid, self.evaluations, len(self.nontrivial)))
            return 2
        return 0


def _sig(x):
    if isinstance(x, (str, int)):
        return x
    return hashlib.sha1(repr(x).encode("utf-8", "surrogateescape")).hexdigest()[:16]


def _json_default(o):
    if isinstance(o, (bytes, bytearray)):
        return fsd(bytes(o))
    if isinstance(o, (set, frozenset)):
        return sorted(o, key=repr)
    return repr(o)


def rng_for(seed, *parts):
    h = hashlib.sha256(("%d|" % seed + "|".join(str(p) for p in parts)).encode()).digest()
    return random.Random(int.from_bytes(h[:8], "big"))


def process_quiescent(pid, wait=6.0):
    """Decides whether a process that exceeded its watchdog is provably stuck (a hang) rather than slow.

    Two samples `wait` seconds apart must show, for the process and for each of its live descendants: the same set of
    threads; no bytes transferred in between (/proc/<pid>/io); every thread asleep with an unchanged context-switch
    count - except that in the process itself at most one busy thread is tolerated, because fclones keeps a
    status-line refresh thread that spins in sleep(0) while a hidden progress bar exists (it does no I/O).
    Zombie children (exited, not yet waited for) cannot make progress and are ignored."""
    def descendants(root):
        out, todo = [], [root]
        while todo:
            q = todo.pop()
            try:
                kids = subprocess.run(["pgrep", "-P", str(q)], stdout=subprocess.PIPE).stdout.split()
            except Exception:
                kids = []
            for k in kids:
                k = int(k)
                try:
                    with open("/proc/%d/stat" % k) as f:
                        st = f.read().rsplit(")", 1)[1].split()[0]
                except OSError:
                    continue
                if st != "Z":
                    out.append(k)
                    todo.append(k)
        return out

    def snap(q):
        out = {}
        try:
            for t in os.listdir("/proc/%d/task" % q):
                with open("/proc/%d/task/%s/stat" % (q, t)) as f:
                    state = f.read().rsplit(")", 1)[1].split()[0]
                sw = 0
                with open("/proc/%d/task/%s/status" % (q, t)) as f:
                    for l in f:
                        if l.startswith("voluntary_ctxt_switches") or l.startswith("nonvoluntary_ctxt_switches"):
                            sw += int(l.split()[1])
                out[t] = (state, sw)
            with open("/proc/%d/io" % q) as f:
                io = f.read()
        except OSError:
            return None
        return out, io
    pids = [pid] + descendants(pid)
    a = {q: snap(q) for q in pids}
    time.sleep(wait)
    if [pid] + descendants(pid) != pids:
        return False
    b = {q: snap(q) for q in pids}
    for q in pids:
        if not a[q] or not b[q] or set(a[q][0]) != set(b[q][0]) or a[q][1] != b[q][1]:
            return False
        moving = [t for t in b[q][0] if not (b[q][0][t][0] == "S" and a[q][0][t] == b[q][0][t])]
        if len(moving) > (1 if q == pid else 0):
            return False
    return True
