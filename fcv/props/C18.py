"""C18 - `move` maps sources injectively and never overwrites."""
import errno
import json
import os

from .. import build, common, dd, inventory, reports, runner, shimlog
from ..common import fsd, fse
from ..runner import ok, violation, inconclusive
from . import ddcase

RULE = ("real `group | move DIR` pipelines: DIR outside / inside the scanned tree, on the same file system (rename) or on "
        "tmpfs (EXDEV -> copy fallback), absolute or relative, pre-populated at mapped target paths with colliding files, "
        "directories, symlinks (also dangling) and with non-directories at parent positions; optional single injected fault "
        "(rename EXDEV/EIO/EPERM, write or copy_file_range ENOSPC/EIO, mkdir EACCES, unlink EIO) through the shim. Oracle: "
        "every source the model says is moved is at DIR/<absolute source path> with identical bytes and gone from its old "
        "place; every entry that existed under DIR before is unchanged (type, inode, bytes, link target, mtime); on a "
        "collision or failure the source still holds its bytes and a warning is logged; trace monitor: unlink(source) of a "
        "copied file comes after the last write to its target and the target then has the source's size. "
        "non-trivial = run with >=1 moved file and (>=1 collision or fault or cross-device copy)")

FAULTS = [("rename", errno.EXDEV), ("rename", errno.EIO), ("rename", errno.EPERM), ("write,copy_file_range,sendfile", errno.ENOSPC),
          ("write,copy_file_range,sendfile", errno.EIO), ("mkdir", errno.EACCES), ("unlink", errno.EIO)]


def run_case(arg):
    seed, i, tier = arg
    r = common.rng_for(seed, "C18", i)
    sc = ddcase.gen_scenario(r, hostile_p=0.3, ops=["move"], allow_symlinks=False)
    scratch = common.Scratch("C18")
    try:
        return _run(sc, r, scratch, i)
    finally:
        scratch.cleanup()


def _run(sc, r, scratch, i):
    d = scratch.case_dir("ext4")
    home = os.path.join(d, "home")
    troot, roots_abs = ddcase.materialise(sc, d)
    cfg = sc["cfg"]
    res, gargv = ddcase.run_group_for(sc, troot, home)
    if res.timed_out or res.rc != 0:
        return [inconclusive("group failed/timed out")]
    report = res.out
    rep = reports.parse(report, sc["fmt"])
    where = r.choice(["outside", "outside", "inside", "tmpfs", "tmpfs", "relative", "bind-mount"])
    if where == "bind-mount":
        # DIR below another mount point of the same block device: fclones takes it for another mount and copies without
        # trying to rename first
        os.makedirs(os.path.join(d, "bm-src"))
        os.makedirs(os.path.join(d, "bm"))
        if scratch.mount_bind(os.path.join(d, "bm-src"), os.path.join(d, "bm")):
            target = os.path.join(d, "bm", "moved")
        else:
            where = "outside"
    if where == "bind-mount":
        pass
    elif where == "outside":
        target = os.path.join(d, "moved dir")
    elif where == "inside":
        target = os.path.join(troot, sc["spec"]["roots"][0], "moved-here")
    elif where == "tmpfs":
        target = os.path.join(scratch.case_dir("tmpfs"), "moved")
    else:
        target = os.path.join(d, "rel target")
    target_arg = os.path.relpath(target, troot) if where == "relative" else target
    dotdot = where in ("outside", "relative") and r.random() < 0.35
    if dotdot:
        # DIR spelled with `..` after a symlink to a directory elsewhere: the kernel resolves `cur/..` to the parent of the
        # link's target (d/store/deep), not to the directory the link lies in (d/via)
        real_parent = os.path.join(d, "store", "deep")
        os.makedirs(os.path.join(real_parent, "current"))
        os.makedirs(os.path.join(d, "via"))
        os.symlink(os.path.join(real_parent, "current"), os.path.join(d, "via", "cur"))
        name = os.path.basename(target)
        target = os.path.join(real_parent, name)
        via = os.path.relpath(os.path.join(d, "via"), troot) if where == "relative" else os.path.join(d, "via")
        target_arg = via + "/cur/../" + name
    tb = fse(target)
    inv0 = inventory.take(troot)
    all_paths = [p for g in rep.groups for p in g["files"]]
    snap = dd.snapshot(all_paths)
    if any(v is None or v["btime"] is None for v in snap.values()):
        return [inconclusive("stat failed")]
    eff = ddcase.effective(sc, roots_abs)
    expected = []
    for g in rep.groups:
        files = [p for p in g["files"] if snap[p]["size"] == g["len"]]
        dr, kp, _ = dd.expected_drops(files, snap, eff, "doc")
        dr2, _, _ = dd.expected_drops(files, snap, eff, "alt")
        if set(dr) != set(dr2):
            return [inconclusive("ambiguous sub-group keys")]
        expected += dr
    if not expected:
        return []
    mapped = {s: tb + s for s in expected}  # DIR/<absolute path without the root '/'>
    if len(set(mapped.values())) != len(mapped):
        return [violation("C18:model:mapping-not-injective", "reference mapping collided", {"case": i})]
    # pre-populate some collisions
    os.makedirs(tb, exist_ok=True)
    collisions = {}
    for s in r.sample(expected, min(len(expected), r.choice([0, 0, 1, 2, 3]))):
        t = mapped[s]
        kind = r.choice(["file", "dir", "dangling-symlink", "symlink-to-file", "parent-is-file", "parent-is-symlink-to-dir"])
        try:
            if kind in ("parent-is-file", "parent-is-symlink-to-dir"):
                parent = os.path.dirname(t)
                if os.path.lexists(parent):
                    continue
                os.makedirs(os.path.dirname(parent), exist_ok=True)
                if kind == "parent-is-file":
                    with open(parent, "wb") as f:
                        f.write(b"i am a file where a directory is needed")
                else:
                    real = os.path.join(fse(d), b"elsewhere-%d" % len(collisions))
                    os.makedirs(real, exist_ok=True)
                    os.symlink(real, parent)
            else:
                if os.path.lexists(t):
                    continue
                os.makedirs(os.path.dirname(t), exist_ok=True)
                if kind == "file":
                    with open(t, "wb") as f:
                        f.write(b"pre-existing target content")
                elif kind == "dir":
                    os.makedirs(t)
                elif kind == "dangling-symlink":
                    os.symlink(b"/nonexistent-fcv/nowhere", t)
                else:
                    other = os.path.join(fse(d), b"linked-file-%d" % len(collisions))
                    with open(other, "wb") as f:
                        f.write(b"content behind a symlink")
                    os.symlink(other, t)
            collisions[s] = kind
        except OSError:
            continue
    # sources whose target position is occupied, or whose target's parent chain contains a non-directory
    blocked = {}
    for s_ in expected:
        t = mapped[s_]
        if os.path.lexists(t):
            blocked[s_] = collisions.get(s_, "occupied")
            continue
        parent = os.path.dirname(t)
        while len(parent) > len(tb):
            if os.path.lexists(parent) and not os.path.isdir(parent):
                blocked[s_] = "parent-not-a-directory"
                break
            parent = os.path.dirname(parent)
    existed_before = {mapped[s_] for s_ in expected if os.path.lexists(mapped[s_])}
    before = {}
    for sd in (troot, target):
        before.update(inventory.take(sd))
    before_aux = inventory.take(d)  # 'elsewhere' dirs, linked files
    fault = None
    plan = None
    if r.random() < 0.35:
        ops, en = r.choice(FAULTS)
        nth = r.choice([1, 1, 2, 3])
        fault = {"ops": ops, "errno": en, "nth": nth}
        plan = shimlog.plan(shimlog.rule(ops, b"", nth, "fail:%d" % en))
    log = os.path.join(d, "shim.log")
    env = shimlog.shim_env(log, [troot, target, d], plan)
    env.update(common.ambient_env(r, elsewhere=os.path.join(home, "tmp")))
    threads = 1 if fault else None
    rres, rargv = dd.run_dedupe("move", cfg, report, troot, home, target=target_arg, extra_env=env, threads=threads)
    after = {}
    for sd in (troot, target):
        after.update(inventory.take(sd))
    after_aux = inventory.take(d)
    ev, fired, junk = shimlog.parse(log)
    witness = {"case": i, "scenario": {k: sc[k] for k in ("group", "fmt", "cfg")}, "spec": sc["spec"], "where": where,
               "target": target, "target_arg": target_arg, "collisions": {fsd(k): v for k, v in collisions.items()},
               "fault": fault, "fired": fired, "argv": [fsd(a) for a in rargv], "rc": rres.rc,
               "stderr": rres.err_text()[-2500:], "report": report.decode("utf-8", "replace")[:2500]}
    if rres.timed_out:
        return [inconclusive("move timed out")]
    if "panicked" in rres.err_text():
        return [violation("C18:panicked", rres.err_text()[-300:], witness)]
    if fault and not fired:
        return [inconclusive("planned fault never fired")]
    sp = where if where != "relative" else "outside"
    # (1) nothing that existed under DIR (or behind its symlinks) before may change
    for p, rec in before.items():
        if not dd.under(tb, p):
            continue
        a = after.get(p)
        if a is None or not (inventory.same_entry(rec, a) if rec["type"] != "d" else a["type"] == "d"):
            witness["altered"] = {"path": fsd(p), "before": {k: repr(v) for k, v in rec.items()}, "after": repr(a)}
            kind = next((v for s, v in collisions.items() if mapped[s] == p), "other")
            return [violation("C18:existing-target-entry-altered:%s" % kind,
                              "an entry that already existed under DIR was altered (%s): %s" % (kind, fsd(p)), witness,
                              sig=(sp, "altered"))]
    for p, rec in before_aux.items():
        if b"/elsewhere-" in p or b"/linked-file-" in p:
            a = after_aux.get(p)
            if a is None or (rec["type"] == "f" and a.get("sha") != rec.get("sha")):
                witness["altered"] = fsd(p)
                return [violation("C18:written-through-symlink", "a file behind a pre-existing symlink under DIR was altered: %s"
                                  % fsd(p), witness, sig=(sp, "through-link"))]
    added_behind = [p for p in after_aux if b"/elsewhere-" in p and p not in before_aux]
    # (2) every expected source: either moved to its mapped target with identical bytes, or still in place
    moved, stayed = [], []
    for s in expected:
        t = mapped[s]
        src_before = before[s]
        src_after = after.get(s)
        tgt_after = after.get(t)
        in_place = src_after is not None and src_after["type"] == "f" and src_after["sha"] == src_before["sha"]
        # the target is read through the path itself: a parent position may be a symlink to a directory
        try:
            at_target = (t not in existed_before and os.path.isfile(t) and not os.path.islink(t)
                         and inventory.sha(t) == src_before["sha"])
        except OSError:
            at_target = False
        if in_place and not at_target:
            stayed.append(s)
        elif at_target and src_after is None:
            moved.append(s)
        elif in_place and at_target:
            # copied but source not removed: acceptable only if a fault hit the unlink
            if not fault:
                witness["dup"] = fsd(s)
                return [violation("C18:source-not-removed-after-copy", "source still present after it was copied to the target: %s"
                                  % fsd(s), witness)]
            stayed.append(s)
        else:
            witness["lost"] = {"source": fsd(s), "target": fsd(t), "source_after": repr(src_after), "target_after": repr(tgt_after)}
            kind = "after-fault" if fault else ("collision:" + blocked[s] if s in blocked else "plain")
            return [violation("C18:source-bytes-lost:%s" % kind,
                              "after `move` the bytes of %s are neither at the source nor at the mapped target" % fsd(s), witness,
                              sig=(sp, "lost"))]
    # (3) collisions must leave the source in place, with a warning
    for s, kind in blocked.items():
        if s in moved:
            witness["collided"] = {"source": fsd(s), "kind": kind}
            return [violation("C18:moved-despite-collision:%s" % kind, "source %s was moved although its target position was "
                              "occupied (%s)" % (fsd(s), kind), witness, sig=(sp, "collision"))]
    if (blocked or (fault and stayed)) and "warn" not in rres.err_text():
        return [violation("C18:no-warning-on-failure", "a file could not be moved but no warning was logged", witness)]
    if not fault:
        unexpected_stay = [s for s in stayed if s not in blocked]
        if unexpected_stay:
            witness["not_moved"] = [fsd(s) for s in unexpected_stay[:5]]
            return [violation("C18:file-not-moved", "%d files that should have been moved stayed in place, e.g. %s"
                              % (len(unexpected_stay), fsd(unexpected_stay[0])), witness)]
    # nothing else may appear under DIR than mapped targets and their parent directories
    allowed = set(mapped.values())
    for p in after:
        if dd.under(tb, p) and p not in before and after[p]["type"] != "d" and p not in allowed and os.path.realpath(p) == p:
            if fault and inventory.is_temp_sibling(p):
                continue
            witness["stray"] = fsd(p)
            return [violation("C18:unmapped-entry-created", "an entry appeared under DIR that is no mapped target: %s" % fsd(p), witness)]
    # (4) trace monitor for copied files: unlink(source) after the last write to the target
    copies = 0
    for s in moved:
        t = mapped[s]
        un = [e for e in ev if e.op == "unlink" and e.p1 == s and e.ret == 0]
        wr = [e for e in ev if e.op in ("write", "copy_file_range", "sendfile") and e.p1 == t and e.ret >= 0]
        if wr:
            copies += 1
            if not un or un[0].seq < max(e.seq for e in wr):
                witness["trace"] = [e.as_dict() for e in (wr + un)[:10]]
                return [violation("C18:source-unlinked-before-copy-complete", "unlink(source) precedes the last write to the target for %s"
                                  % fsd(s), witness)]
            closes = [e for e in ev if e.op == "close" and e.p1 == t and e.seq > max(x.seq for x in wr)]
            if closes and un[0].seq < closes[0].seq:
                witness["trace"] = [e.as_dict() for e in (wr + closes + un)[:10]]
                return [violation("C18:source-unlinked-before-target-closed", "unlink(source) precedes close(target) for %s" % fsd(s), witness)]
    interesting = bool(moved) and (bool(collisions) or bool(fault) or copies > 0)
    sig = (sp, sc["fmt"], tuple(sorted(collisions.values())), (fault or {}).get("ops"), (fault or {}).get("errno"), copies > 0,
           len(moved), len(stayed)) if interesting else None
    counts = {"moved": len(moved), "stayed": len(stayed), "collisions": len(collisions), "copied_cross_device": copies,
              "faults_fired": 1 if fault else 0, "where": [where + ("+dotdot-after-symlink" if dotdot else "")], "collision_kinds": sorted(set(collisions.values()))}
    return [ok(sig, {"where": where, "moved": len(moved), "stayed": len(stayed), "collisions": sorted(collisions.values()),
                     "fault": fault}, counts)]


def main(tier, seed, cases=None):
    build.build_rel()
    build.build_shim()
    n = cases or (800 if tier == "quick" else 6000)
    chk = common.Check("C18", "exploration", tier, seed, RULE,
                       ["reference drop model of C08 decides which sources are moved", "tmpfs (/dev/shm) is the second file system",
                        "faults are injected at libc call boundaries by the shim"])
    runner.run_cases(chk, run_case, [(seed, i, tier) for i in range(n)], budget_s=240 if tier == "quick" else 3000)
    return chk.finish()


def replay(path):
    with open(path) as f:
        w = json.load(f)
    build.build_rel()
    build.build_shim()
    chk = common.Check("C18", "exploration", w["tier"], w["seed"], RULE)
    runner.fold(chk, run_case((w["seed"], w["witness"]["case"], w["tier"])))
    return 1 if chk.violations else 0
