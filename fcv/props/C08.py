"""C08 - dedupe obeys keep/drop patterns, priorities, link sets and -n."""
import json
import os
import time

from .. import build, common, dd, inventory, reports, runner, shimlog
from ..common import fsd, fse
from ..runner import ok, violation, inconclusive
from . import ddcase

RULE = ("generated trees (groups of 2..8 and, in 8% of the cases, one group of 34..140 files with 2-3 distinct time stamps; hard-link subsets, 1-3 roots, tied and distinct a/m/c/b-times and nesting) x "
        "real command lines (12 priorities single and chained, name/path/keep globs, n via -n/--rf-over/inherited, "
        "isolate/-H inherited from the report header, text and JSON); the set of paths named by the --dry-run script "
        "(decoded by bash) and the set of paths processed by the real run (shim log + inventory) must both equal the "
        "drop set computed by the reference model from the report, the metadata snapshot and the options. "
        "non-trivial = a group where the model drops something and keeps something; distinct = distinct "
        "(op, options, group shape)")


def run_case(arg):
    seed, i, tier = arg
    r = common.rng_for(seed, "C08", i)
    sc = ddcase.gen_scenario(r, hostile_p=0.15, allow_symlinks=False)
    # C08 wants priorities and patterns more often than C02
    cfg = sc["cfg"]
    if r.random() < 0.6:
        cfg["priority"] = [r.choice(dd.PRIORITIES) for _ in range(r.choice([1, 1, 2, 2, 3]))]
    if r.random() < 0.08:
        # one large group with heavily tied time stamps: ties must stay in report order whatever the sort
        # implementation does for long inputs
        nfiles = r.randrange(34, 140)
        nd = r.randrange(1, 4)
        ents = [{"t": "d", "p": "r0"}] + [{"t": "d", "p": "r0/d%d" % k} for k in range(nd)]
        ents += [{"t": "f", "p": "r0/d%d/m%03d" % (r.randrange(nd), k), "fam": 7, "len": 100, "flip": [], "mtime": k + 1}
                 for k in range(nfiles)]
        sc["spec"] = {"entries": ents, "roots": ["r0"]}
        sc["group"].update({"isolate": False, "rf": None, "match_links": False})
        timeprio = [p for p in dd.PRIORITIES if "recent" in p]
        cfg.clear()
        cfg["priority"] = [r.choice(timeprio)] + ([r.choice(dd.PRIORITIES)] if r.random() < 0.3 else [])
        cfg["n"] = r.choice([1, 2, 3, 5, 8])
        cfg["n_flag"] = "-n"
        sc["big"] = r.choice([2, 2, 3])
    scratch = common.Scratch("C08")
    try:
        return _run(sc, r, scratch, i)
    finally:
        scratch.cleanup()


def _set_times(r, troot, npool=None):
    """Gives every file a/m-times from a small pool (ties on purpose) and staggers ctimes."""
    files = []
    for dp, dn, fn in os.walk(fse(troot)):
        for f in fn:
            p = os.path.join(dp, f)
            if os.path.isfile(p) and not os.path.islink(p):
                files.append(p)
    r.shuffle(files)
    base = 1_600_000_000_000_000_000
    pool = [base + k * 1_000_000_000 for k in range(4)] + [base + 500_000_000, base + 500_000_001]
    if npool:
        pool = r.sample(pool, npool)
    stagger = r.random() < 0.5
    for p in files:
        os.utime(p, ns=(r.choice(pool) + 10_000_000_000, r.choice(pool)))
        if stagger:
            time.sleep(0.004)


def _prio_sig(cfg):
    pr = cfg.get("priority") or []
    if len(pr) > 1 and any(p in ("top", "bottom") for p in pr[:-1]):
        return "chained-top-bottom-not-last"
    return "priority" if pr else "default-order"


def _run(sc, r, scratch, i):
    d = scratch.case_dir("ext4")
    home = os.path.join(d, "home")
    troot, roots_abs = ddcase.materialise(sc, d)
    op, cfg, g = sc["op"], sc["cfg"], sc["group"]
    res, gargv = ddcase.run_group_for(sc, troot, home)
    if res.timed_out or res.rc != 0:
        return [inconclusive("group failed/timed out: " + res.err_text()[-200:])]
    report = res.out
    rep = reports.parse(report, sc["fmt"])
    _set_times(r, troot, sc.get("big"))
    target = os.path.join(d, "moved") if op == "move" else None
    if target:
        os.makedirs(target)
    all_paths = [p for gr in rep.groups for p in gr["files"]]
    snap = dd.snapshot(all_paths)
    eff = ddcase.effective(sc, roots_abs)
    witness = {"case": i, "scenario": {k: sc[k] for k in ("group", "fmt", "op", "cfg")}, "spec": sc["spec"],
               "group_argv": [fsd(a) for a in gargv], "effective": {k: v for k, v in eff.items()},
               "report": report.decode("utf-8", "replace")[:5000]}
    if any(v is None for v in snap.values()):
        return [inconclusive("could not stat a reported path")]
    if any(v["btime"] is None for v in snap.values()):
        return [inconclusive("no birth time on this file system")]
    expected = set()
    ambiguous = 0
    nontrivial = False
    per_group = []
    for gr in rep.groups:
        files = [p for p in gr["files"] if snap[p]["size"] == gr["len"]]
        dr, kp, sub = dd.expected_drops(files, snap, eff, "doc")
        dr2, kp2, _ = dd.expected_drops(files, snap, eff, "alt")
        if set(dr) != set(dr2):
            ambiguous += 1
            per_group.append(None)
            continue
        per_group.append((set(dr), set(kp)))
        expected |= set(dr)
        if dr and kp:
            nontrivial = True
    amb_paths = {p for gr, pg in zip(rep.groups, per_group) if pg is None for p in gr["files"]}

    # (b) dry run
    dcfg = dict(cfg)
    dcfg["dry_run"] = True
    dcwd = r.choice([troot, troot, d, "/"])  # the dedupe command need not run where `group` ran
    witness["dedupe_cwd"] = dcwd
    dres, dargv = dd.run_dedupe(op, dcfg, report, dcwd, home, target=target)
    witness.update({"dry_argv": [fsd(a) for a in dargv], "dry_rc": dres.rc, "dry_stderr": dres.err_text()[-2000:],
                    "script": dres.out.decode("utf-8", "replace")[:4000]})
    sp = "%s:%s" % (_prio_sig(cfg), "+".join(sorted(k for k in cfg if k in ("name", "path", "keep_name", "keep_path"))) or "nopat")
    if dres.timed_out:
        return [inconclusive("dry run timed out")]
    if dres.rc != 0 or "panicked" in dres.err_text():
        return [violation("C08:%s:dedupe-died" % sp, "dry run exited %s: %s" % (dres.rc, dres.err_text()[-300:]), witness)]
    try:
        cmds, brc, berr = dd.decode_script(dres.out, os.path.join(d, "bash"))
        sops = dd.script_ops(cmds)
    except Exception as e:
        return [inconclusive("script not decodable (C11/C17 territory): %s" % str(e)[:200])]
    script_paths = {o[1] for o in sops}
    counts = {"groups": len(rep.groups), "ambiguous_groups": ambiguous, "expected_drops": len(expected), "ops": [op]}

    def judge(kind, got):
        got_c = got - amb_paths
        if got_c != expected:
            miss = sorted(expected - got_c)
            extra = sorted(got_c - expected)
            witness["mismatch"] = {"kind": kind, "expected_not_dropped": [fsd(p) for p in miss[:8]],
                                   "dropped_not_expected": [fsd(p) for p in extra[:8]],
                                   "snapshot": {fsd(p): {k: snap[p][k] for k in ("ino", "atime", "mtime", "ctime", "btime")}
                                                for p in (miss + extra)[:8]}}
            what = "keeps-what-must-drop" if miss and not extra else "drops-what-must-keep" if extra and not miss else "wrong-selection"
            return violation("C08:%s:%s" % (sp, what),
                             "%s of `%s %s`: %d paths expected to be dropped are not, %d dropped paths not expected; e.g. %s"
                             % (kind, op, " ".join(fsd(a) for a in dargv[2:]), len(miss), len(extra),
                                [fsd(p) for p in (miss + extra)[:2]]), witness, counts=counts)
        return None
    v = judge("dry-run script", script_paths)
    if v:
        return [v]

    # (a) real run
    before = inventory.take(troot, digest=False)
    log = os.path.join(d, "shim.log")
    env = shimlog.shim_env(log, [troot] + ([target] if target else []), ficlone=(op == "dedupe"))
    rres, rargv = dd.run_dedupe(op, cfg, report, dcwd, home, target=target, extra_env=env)
    witness.update({"real_argv": [fsd(a) for a in rargv], "real_rc": rres.rc, "real_stderr": rres.err_text()[-2000:]})
    if rres.timed_out:
        return [inconclusive("real run timed out")]
    if rres.rc != 0 or "panicked" in rres.err_text():
        return [violation("C08:%s:dedupe-died" % sp, "real run exited %s: %s" % (rres.rc, rres.err_text()[-300:]), witness)]
    ev, fired, junk = shimlog.parse(log)
    lops = dd.log_ops(ev, op)
    if op == "move":
        done = {o[1] for o in lops if o[0] in ("move", "move-unlink")}
    elif op == "remove":
        done = {o[1] for o in lops if not dd.TEMP_SUFFIX.search(o[1])}
    else:
        done = {o[1] for o in lops}
    v = judge("real run", done)
    if v:
        return [v]
    after = inventory.take(troot, digest=False)
    removed, added, changed = inventory.diff(before, after)
    if op in ("remove", "move"):
        gone = {p for p in removed if before[p]["type"] != "d"} - amb_paths
        if gone != expected:
            witness["gone"] = [fsd(p) for p in sorted(gone ^ expected)[:8]]
            return [violation("C08:%s:inventory-disagrees" % sp, "paths that disappeared differ from the model", witness)]
    counts["real_ops"] = len(lops)
    sig = (op, sc["fmt"], tuple(cfg.get("priority") or ()), tuple(sorted(cfg)), eff["n"], bool(eff["isolate"]),
           eff["match_links"], tuple(sorted(len(gr["files"]) for gr in rep.groups))) if nontrivial else None
    sample = {"op": op, "cfg": cfg, "group": {k: v for k, v in g.items() if v}, "expected_drops": len(expected),
              "groups": len(rep.groups)}
    return [ok(sig, sample, counts)]


def main(tier, seed, cases=None):
    build.build_rel()
    build.build_shim()
    n = cases or (500 if tier == "quick" else 8000)
    chk = common.Check("C08", "exploration", tier, seed, RULE,
                       ["reference model fcv/dd.py::expected_drops and glob reference fcv/globref.py (from README/--help)",
                        "sub-group time keys: a group where min/max aggregation would change the outcome is skipped as ambiguous"])
    runner.run_cases(chk, run_case, [(seed, i, tier) for i in range(n)], budget_s=240 if tier == "quick" else 3000)
    return chk.finish()


def replay(path):
    with open(path) as f:
        w = json.load(f)
    build.build_rel()
    build.build_shim()
    chk = common.Check("C08", "exploration", w["tier"], w["seed"], RULE)
    runner.fold(chk, run_case((w["seed"], w["witness"]["case"], w["tier"])))
    return 1 if chk.violations else 0
