"""Scenario generator and runner for dedupe pipelines (shared by C02, C08, C11, C20)."""
import os
import re
import time

from .. import common, dd, gm, inventory, reports, shimlog, tree
from ..common import fsd, fse

GLOB_POOL = ["*1*", "*a*", "*e*", "*.txt", "*.bin", "{a,b,c}*", "?*", "[a-m]*", "[!a-m]*", "*2", "file*", "n?", "+(a|b|c)*",
             "*(x|y)*.txt", "?(d)ata*", "@(doc|data)*"]
PATH_GLOB_POOL = ["**/r0/**", "**/r1/**", "**/r2/**", "**/*1*/**", "**/*a*", "**/r?/*", "**/{r0,r1}/**"]


def glob_escape(name):
    return "".join(c if c.isalnum() else "\\" + c for c in name)


def lossy_glob(b):
    out, wild = "", False
    for k, part in enumerate(b.decode("utf-8", "replace").split("\ufffd")):
        if k > 0 and not wild:
            out += "*"
            wild = True
        if part:
            out += glob_escape(part)
            wild = False
    return out or "*"


def gen_scenario(r, hostile_p=0.3, ops=None, allow_symlinks=True, for_model=False):
    n_roots = r.choice([1, 1, 2, 2, 3])
    # one scenario in seven also has empty files and a report made with --min 0 (lock files, placeholders)
    min0 = r.random() < 0.15
    spec, meta = tree.gen_dup_tree(r, n_classes=r.randrange(2, 6), max_members=5, hostile_p=hostile_p if r.random() < 0.6 else 0.0,
                                   n_dirs=r.randrange(0, 5), lens=([0, 0] if min0 else []) + [1, 3, 100, 4096, 5000, 20000],
                                   min_len=0 if min0 else 1, decoys=r.random() < 0.5,
                                   roots=n_roots, hardlinks=True, ws_twins=0.3, prefix_roots=(n_roots >= 2 and r.random() < 0.3))
    # one multi-root scenario in six can be materialised with its second root on another file system (a tmpfs mounted for
    # the case, see materialise): hard links across that boundary become copies
    two_fs = n_roots >= 2 and r.random() < 0.17
    if two_fs:
        second = spec["roots"][1] + "/"
        by_p = {e["p"]: e for e in spec["entries"]}
        for e in spec["entries"]:
            if e["t"] == "h" and e["p"].startswith(second) != e["to"].startswith(second):
                src = by_p[e["to"]]
                while src["t"] == "h":
                    src = by_p[src["to"]]
                e.update(t="f", fam=src["fam"], len=src["len"], flip=list(src.get("flip", ())), mtime=src.get("mtime", 0) + 1)
                del e["to"]
    if r.random() < 0.2:
        # give some files a name that is not valid UTF-8 (name patterns still apply to them, through the lossy form)
        fl = [e for e in spec["entries"] if e["t"] == "f"]
        for e in r.sample(fl, min(len(fl), r.randrange(1, 4))):
            dn, bn = e["p"].rsplit("/", 1)
            nn = r.choice([bn + fsd(b"\xff"), fsd(b"\xc5") + bn, bn + fsd(b"\xed\xa0\xbd") + "z"])
            if any(x["p"] == dn + "/" + nn for x in spec["entries"]):
                continue
            for h in spec["entries"]:
                if h["t"] == "h" and h["to"] == e["p"]:
                    h["to"] = dn + "/" + nn
            for c in meta["classes"]:
                c["members"] = [dn + "/" + nn if m == e["p"] else m for m in c["members"]]
            e["p"] = dn + "/" + nn
    g = {"hash_fn": r.choice(["metro", "blake3", "xxhash"]), "kind": None, "max_prefix": None, "max_suffix": None,
         "threads": None, "cache": None, "transform": None, "match_links": False, "rf": None, "min0": min0, "fs": "ext4"}
    if r.random() < 0.2:
        g["match_links"] = True
    sym = False
    if allow_symlinks and not g["match_links"] and r.random() < 0.2:
        # file symlinks reported with -S
        g["symbolic_links"] = True
        sym = True
        files = [e for e in spec["entries"] if e["t"] == "f"]
        for k in range(r.randrange(1, 4)):
            tgt = r.choice(files)
            d = r.choice(spec["roots"])
            name = "sl%d" % k
            # absolute targets are filled in at materialisation time through a marker
            # (four in ten with a relative target, as `ln -s ../x/file` makes them: filled in by materialise)
            spec["entries"].append({"t": "l", "p": d + "/" + name, "to": "@ABS@/" + tgt["p"], "rel": r.random() < 0.4})
    if n_roots >= 2 and r.random() < 0.35:
        g["isolate"] = True
    if r.random() < 0.3:
        k = r.choice([0, 1, 2])
        if not (g.get("isolate") and n_roots <= k):
            g["rf"] = ("over", k)
    fmt = r.choice(["default", "json"])
    op = r.choice(ops or dd.OPS)
    cfg = {}
    if r.random() < 0.35:
        cfg["n"] = r.choice([1, 1, 2, 3])
        cfg["n_flag"] = r.choice(["-n", "--rf-over"])
    if r.random() < 0.5:
        cfg["priority"] = [r.choice(dd.PRIORITIES) for _ in range(r.choice([1, 1, 2, 3]))]
    names = [os.path.basename(e["p"]) for e in spec["entries"] if e["t"] in "fh"]
    utf_names = [n for n in names if _is_utf8(n)]

    bad_names = [n for n in names if not _is_utf8(n)]

    def pick_name_pat():
        if bad_names and r.random() < 0.5:
            # a glob for a name that is not valid UTF-8: its valid parts literally, `*` where the bytes are invalid
            b = fse(r.choice(bad_names))
            return lossy_glob(b)
        if utf_names and r.random() < 0.4:
            return glob_escape(r.choice(utf_names))
        return r.choice(GLOB_POOL)
    if r.random() < 0.25:
        cfg["name"] = [pick_name_pat() for _ in range(r.choice([1, 2]))]
    if r.random() < 0.15:
        cfg["path"] = [r.choice(PATH_GLOB_POOL)]
    if r.random() < 0.25:
        cfg["keep_name"] = [pick_name_pat() for _ in range(r.choice([1, 2]))]
    if r.random() < 0.15:
        cfg["keep_path"] = [r.choice(PATH_GLOB_POOL)]
    if r.random() < 0.1:
        cfg["match_links"] = True
    if r.random() < 0.1:
        cfg["no_lock"] = True
    if r.random() < 0.12 and not sym:
        # (not over -S reports: a symlink below a root and its target outside are the known finding D18 in another guise)
        # --isolate given to the dedupe command itself: a subset of the roots, or directories below them, so that some
        # reported files (and their hard links) lie outside every isolated root; made absolute by materialise()
        dirs_ = [e["p"] for e in spec["entries"] if e["t"] == "d" and "\n" not in e["p"]]
        if dirs_:
            cfg["isolate_rel"] = r.sample(dirs_, min(len(dirs_), r.choice([1, 1, 2])))
    return {"spec": spec, "meta": meta, "group": g, "fmt": fmt, "op": op, "cfg": cfg, "symlinks": sym, "two_fs": two_fs}


def _is_utf8(s):
    try:
        fse(s).decode("utf-8")
        return True
    except UnicodeDecodeError:
        return False


def materialise(sc, d, scratch=None):
    """Creates the tree under d/t; returns (troot, roots_abs). With a Scratch, a two_fs scenario gets a fresh tmpfs mounted
    on its second root (sc["mounted"] says whether that was possible)."""
    troot = os.path.join(d, "t")
    spec = sc["spec"]
    sc["mounted"] = False
    if scratch is not None and sc.get("two_fs"):
        mp = os.path.join(troot, spec["roots"][1])
        os.makedirs(mp)
        sc["mounted"] = bool(scratch.mount_tmpfs([mp]))
    for e in spec["entries"]:
        if e["t"] == "l" and e["to"].startswith("@ABS@/"):
            if e.get("rel"):
                e["to"] = os.path.relpath(troot + "/" + e["to"][6:], os.path.dirname(troot + "/" + e["p"]))
            else:
                e["to"] = troot + "/" + e["to"][6:]
    tree.materialise(spec, troot)
    roots_abs = [fse(os.path.join(troot, rt)) for rt in spec["roots"]]
    if sc["cfg"].get("isolate_rel"):
        sc["cfg"]["isolate"] = [os.path.join(troot, x) for x in sc["cfg"].pop("isolate_rel")]
    return troot, roots_abs


def run_group_for(sc, troot, home, extra_env=None):
    res, argv = gm.run_group(sc["group"], sc["spec"]["roots"], troot, home, fmt=sc["fmt"], extra_env=extra_env)
    return res, argv


def effective(sc, roots_abs):
    """Effective dedupe settings: command line, else inherited from the group run."""
    g, cfg = sc["group"], sc["cfg"]
    eff = dict(cfg)
    if cfg.get("n") is None:
        rf = g.get("rf")
        eff["n"] = rf[1] if rf and rf[0] == "over" else 1
    eff["match_links"] = bool(cfg.get("match_links") or g.get("match_links"))
    if cfg.get("isolate"):
        eff["isolate"] = [fse(x) for x in cfg["isolate"]]
    elif g.get("isolate"):
        eff["isolate"] = list(roots_abs)
    else:
        eff["isolate"] = []
    return eff
