"""C10 - reports round-trip losslessly from `group` to the dedupe commands."""
import json
import os
import subprocess

from .. import build, common, dd, gm, reports, tree
from ..common import fsd, fse

RULE = ("library level (fclones::report + verif_api): for every string s of length <= L over a 16-symbol alphabet "
        "(space tab NBSP \\n \\r ' \" \\ # a ż 😀 0xFF 0x7F U+2028 /) and random strings up to 4 KiB: reports with s as an "
        "absolute / relative path in first, middle and last position of groups, as base dir, and as command argument "
        "(alone and in pairs) are written as text and JSON and read back through open_report; header and groups must be "
        "equal (paths compared as bytes); truncation: every byte prefix of 6 small reports x 2 formats must be rejected "
        "or yield only unaltered leading groups. CLI level: real `group` reports over hostile names piped to "
        "`remove --dry-run`; the paths bash decodes from the script must be paths of the tree listed in the report, "
        "also for reports truncated at random points. non-trivial = distinct strings / cut points")


def run_harness(tier, seed):
    if tier == "quick":
        argv = ["--max-len", "3", "--random", "20000"]
    else:
        argv = ["--max-len", "4", "--random", "400000"]
    p = subprocess.run([build.harness_bin("c10_report"), "--seed", str(seed)] + argv, stdout=subprocess.PIPE,
                       stderr=subprocess.PIPE, timeout=7200)
    if p.returncode != 0:
        print("HARNESS-ERROR c10_report exited %s: %s" % (p.returncode, p.stderr.decode("utf-8", "replace")[-2000:]))
        return None
    return json.loads(p.stdout.decode("utf-8"))


def run_chunked(argv, env, cwd, data, first, pause=0.03):
    """Feeds `data` to the command's standard input in two pieces with a pause in between (a slow producer, ssh, a
    terminal): the reader's first read returns only the first piece."""
    import subprocess
    import time
    p = subprocess.Popen(argv, env=env, cwd=cwd, stdin=subprocess.PIPE, stdout=subprocess.PIPE, stderr=subprocess.PIPE)
    try:
        p.stdin.write(data[:first])
        p.stdin.flush()
        time.sleep(pause)
        p.stdin.write(data[first:])
    except BrokenPipeError:
        pass
    try:
        p.stdin.close()
    except BrokenPipeError:
        pass
    out = p.stdout.read()
    err = p.stderr.read()
    p.wait(timeout=60)
    return p.returncode, out, err


def cli_cases(chk, seed, n):
    scratch = common.Scratch("C10")
    try:
        for i in range(n):
            r = common.rng_for(seed, "C10cli", i)
            d = scratch.case_dir("ext4")
            troot = os.path.join(d, "t")
            spec, meta = tree.gen_dup_tree(r, n_classes=r.randrange(2, 5), max_members=3, hostile_p=0.8, n_dirs=r.randrange(0, 4),
                                           lens=[1, 10, 4096], decoys=False, roots=r.choice([1, 2]), ws_twins=0.3)
            tree.materialise(spec, troot)
            home = os.path.join(d, "home")
            fmt = r.choice(["default", "json"])
            o = {"hash_fn": "metro"}
            amb = common.ambient_env(r, elsewhere=d)
            res, gargv = gm.run_group(o, spec["roots"], troot, home, fmt=fmt, extra_env=amb)
            if res.rc != 0:
                chk.note_inconclusive("group failed")
                continue
            try:
                rep = reports.parse(res.out, fmt)
            except Exception as e:
                chk.note_inconclusive("own parser: %s" % e)
                continue
            listed = {p for g in rep.groups for p in g["files"]}
            witness = {"case": i, "spec": spec, "fmt": fmt, "report": res.out.decode("utf-8", "replace")[:3000]}
            # full report and truncated variants
            cuts = [len(res.out)] + [r.randrange(0, len(res.out)) for _ in range(4)]
            for cut in cuts:
                data = res.out[:cut]
                dres, dargv = dd.run_dedupe("remove", {"dry_run": True}, data, troot, home, extra_env=amb)
                w = dict(witness, cut=cut, total=len(res.out), rc=dres.rc, stderr=dres.err_text()[-800:],
                         script=dres.out.decode("utf-8", "replace")[:2000])
                if "panicked" in dres.err_text():
                    chk.violation("C10:cli:reader-panicked", "remove --dry-run panicked on a %s report cut at %d/%d" % (fmt, cut, len(res.out)), w)
                    continue
                try:
                    cmds, brc, berr = dd.decode_script(dres.out, os.path.join(d, "bash"))
                    ops = dd.script_ops(cmds)
                except Exception as e:
                    chk.note_inconclusive("script undecodable: %s" % str(e)[:100])
                    continue
                named = {o[1] for o in ops}
                bogus = named - listed
                if bogus:
                    w["bogus"] = [fsd(p) for p in sorted(bogus)[:5]]
                    kind = "full-report" if cut == len(res.out) else "truncated-report"
                    chk.violation("C10:cli:%s:%s:script-names-unlisted-path" % (fmt if fmt == "json" else "text", kind),
                                  "remove --dry-run on a %s report (cut %d/%d) names paths that the report does not list: %s"
                                  % (fmt, cut, len(res.out), w["bogus"][:2]), w, nontrivial_sig=("cli", i, cut))
                    continue
                if cut == len(res.out) and dres.rc != 0:
                    chk.violation("C10:cli:full-report-rejected", "remove --dry-run rejected a complete %s report: %s"
                                  % (fmt, dres.err_text()[-200:]), w)
                    continue
                if cut == len(res.out):
                    # the same bytes, delivered in two pieces: same script, same verdict
                    first = r.choice([1, 2, 5, 12, 19, 20, 64, max(1, len(data) // 2)])
                    crc, cout, cerr = run_chunked([fse(a) for a in dargv], common.pinned_env(home, amb), troot, data, min(first, len(data)))
                    chk.count("cli_reports_delivered_in_two_pieces")
                    if crc != dres.rc or cout != dres.out:
                        w2 = dict(w, first_piece=first, chunked_rc=crc, chunked_stderr=cerr.decode("utf-8", "replace")[-500:])
                        chk.violation("C10:cli:%s:verdict-depends-on-how-the-report-arrives" % ("json" if fmt == "json" else "text"),
                                      "the same %s report is treated differently when its first %d bytes arrive first: exit %s vs %s, %s"
                                      % (fmt, first, crc, dres.rc, cerr.decode("utf-8", "replace")[-150:]), w2, nontrivial_sig=("cli", i, "chunked"))
                        continue
                chk.ok(("cli", i, cut), {"fmt": fmt, "cut": cut, "of": len(res.out), "script_paths": len(named)} if i < 2 else None)
                chk.count("cli_dry_runs")
                if cut != len(res.out):
                    chk.count("cli_truncated_accepted_prefix" if dres.rc == 0 else "cli_truncated_rejected")
    finally:
        scratch.cleanup()


def main(tier, seed, cases=None):
    build.build_harness()
    build.build_rel()
    chk = common.Check("C10", "exploration", tier, seed, RULE,
                       ["paths are compared after fclones' own Path normalisation (//, ./ components)",
                        "relative all-white-space paths are not generated (group only prints absolute paths)"])
    j = run_harness(tier, seed)
    if j is None:
        return 2
    chk.evaluations = j["roundtrips"] + j["truncations"]
    for k in ("alphabet", "max_len", "bounded_strings", "random_strings", "roundtrips", "paths_checked", "headers_checked",
              "truncations", "truncations_rejected", "truncations_prefix_ok"):
        chk.extra[k] = j[k]
    chk.extra["bounded_part"] = "all strings of length <= %d over the alphabet (exhaustive)" % j["max_len"]
    chk.samples = [{"string": s} for s in j["samples"]]
    chk.nontrivial = set(range(j["bounded_strings"] + j["random_strings"] + j["truncations"]))
    by_sig = {}
    for v in j["violations"]:
        by_sig.setdefault(v["signature"], []).append(v)
    for sig, n in j["signature_counts"].items():
        ex = by_sig.get(sig, [{}])[0]
        chk.violation(sig, "%d cases, e.g. %s: %s" % (n, ex.get("input"), (ex.get("detail") or "")[:300]),
                      {"examples": by_sig.get(sig, []), "count": n})
        chk.evaluations -= 1
    cli_cases(chk, seed, cases or (40 if tier == "quick" else 500))
    return chk.finish()


def replay(path):
    with open(path) as f:
        w = json.load(f)
    return main(w["tier"], w["seed"])
