"""C04 - a stale report never causes removal of changed data."""
import json
import os
import subprocess
import time

from .. import build, common, dd, gm, inventory, reports, runner, shimlog, tree
from ..common import fsd, fse
from ..runner import ok, violation, inconclusive

RULE = ("histories (tree; `group` run; edits at a chosen logical instant; dedupe run). The instant is controlled by hook H3 "
        "pause points, not by timing: t1 after the scan before any hashing, t2 after file X's prefix / suffix / content hash "
        "with other files still pending, t3 after all hashing but before the report is written, t4 after `group` exited "
        "(edit >= 25 ms later). Edits (to 1..all members of a group): rewrite with the same / a different length, append, "
        "truncate, delete, delete+recreate, replace by a directory, by a dangling symlink, by a symlink to a freshly written "
        "file, touch. 15% of the reports come from `group --transform cat` and 15% of the dedupe commands get --no-check-size (length comparison off). Both commands run under a time zone drawn from UTC and zones east and west of it. Then each of the five operations on the text or JSON report. Oracle: inventory taken just before the "
        "dedupe command vs after: no content digest held by a regular file may disappear (move: counting the target "
        "directory), and after link / link --soft / dedupe every regular file still reads back the same bytes. "
        "non-trivial = history whose edit changed content of a group member and whose dedupe run would otherwise have "
        "dropped something; distinct = (instant, edit kinds, operation, format)")

EDITS = ["rewrite-same-len", "rewrite-other-len", "append", "truncate", "delete", "delete-recreate", "to-directory",
         "to-dangling-symlink", "to-symlink-to-fresh-file", "to-symlink-to-old-file-of-other-length", "replaced-by-old-file-of-other-length", "touch"]


def apply_edit(kind, p, r, d, k):
    """Applies one ordinary file operation (mtime is updated as ordinary writes do)."""
    L = os.path.getsize(p) if os.path.isfile(p) and not os.path.islink(p) else 100
    fresh = r.randbytes
    if kind == "rewrite-same-len":
        with open(p, "r+b") as f:
            f.write(fresh(L))
    elif kind == "rewrite-other-len":
        with open(p, "wb") as f:
            f.write(fresh(L + 1 + r.randrange(50)))
    elif kind == "append":
        with open(p, "ab") as f:
            f.write(fresh(1 + r.randrange(100)))
    elif kind == "truncate":
        with open(p, "r+b") as f:
            f.truncate(max(0, L - 1 - r.randrange(min(L, 50) or 1)))
    elif kind == "delete":
        os.unlink(p)
    elif kind == "delete-recreate":
        os.unlink(p)
        with open(p, "wb") as f:
            f.write(fresh(L))
    elif kind == "to-directory":
        os.unlink(p)
        os.mkdir(p)
        with open(os.path.join(p, b"inner"), "wb") as f:
            f.write(fresh(L))
    elif kind == "to-dangling-symlink":
        os.unlink(p)
        os.symlink(b"/nonexistent-fcv/gone", p)
    elif kind == "to-symlink-to-fresh-file":
        os.unlink(p)
        tgt = os.path.join(fse(d), b"fresh-target-%d" % k)
        with open(tgt, "wb") as f:
            f.write(fresh(L))
        os.symlink(tgt, p)
    elif kind == "to-symlink-to-old-file-of-other-length":
        # `ln -sf /some/old/file p`: what fclones sees through the link is an old regular file, of another length
        os.unlink(p)
        tgt = os.path.join(fse(d), b"old-target-%d" % k)
        with open(tgt, "wb") as f:
            f.write(fresh(L + 1 + r.randrange(50)))
        os.utime(tgt, (1_500_000_000, 1_500_000_000))
        os.symlink(tgt, p)
    elif kind == "replaced-by-old-file-of-other-length":
        # `mv /some/old/file p`: an old time stamp, but another length (which is what the dedupe commands compare first)
        os.unlink(p)
        with open(p, "wb") as f:
            f.write(fresh(L + 1 + r.randrange(50)))
        os.utime(p, (1_500_000_000, 1_500_000_000))
    elif kind == "touch":
        os.utime(p, None)


def run_case(arg):
    seed, i, tier = arg
    r = common.rng_for(seed, "C04", i)
    scratch = common.Scratch("C04")
    try:
        return _run(r, scratch, i)
    finally:
        scratch.cleanup()


def _run(r, scratch, i):
    d = scratch.case_dir("ext4")
    troot = os.path.join(d, "t")
    home = os.path.join(d, "home")
    # three in ten histories: two --isolate roots (several members of a group below one root)
    nroots = 2 if r.random() < 0.3 else 1
    spec, meta = tree.gen_dup_tree(r, n_classes=r.randrange(2, 5), max_members=4 if nroots == 1 else 6, hostile_p=0.0, n_dirs=r.randrange(0, 3),
                                   lens=[100, 3000, 20000, 70000, 140000], decoys=r.random() < 0.5, roots=nroots, hardlinks=r.random() < 0.3)
    tree.materialise(spec, troot)
    classes = [c for c in meta["classes"] if len(c["members"]) >= 2]
    if not classes:
        return []
    cls = r.choice(classes)
    members = [fse(os.path.join(troot, m)) for m in cls["members"]]
    victims = r.sample(members, r.randrange(1, len(members) + 1))
    fmt = r.choice(["default", "json"])
    kind = r.choice([None, "ssd", "hdd"])
    o = {"hash_fn": r.choice(["metro", "blake3"]), "kind": kind, "threads": r.choice([None, ["1"], ["default:4,4"]])}
    # the user's time zone (POSIX TZ strings need no tz database); both commands run in the same one
    tz = r.choice(["UTC", "UTC", "JST-9", "EST5EDT", "NPT-5:45", "AEST-10", "PST8", "<+14>-14"])
    instant = r.choice(["t1", "t2-prefix", "t2-suffix", "t2-contents", "t3", "t3b", "t4", "t4"])
    X = r.choice(members)
    point = {"t1": "scan.done", "t2-prefix": "hash.done.prefix:" + os.path.basename(X).decode(),
             "t2-suffix": "hash.done.suffix:" + os.path.basename(X).decode(),
             "t2-contents": "hash.done.contents:" + os.path.basename(X).decode(), "t3": "hashing.done", "t3b": "report.timestamp",
             "t4": None}[instant]
    edit_kinds = [r.choice(EDITS) for _ in victims]
    # with --transform (or --no-check-size on the dedupe command) the length comparison is off and only the
    # modification time protects a changed file
    gtransform = "cat" if r.random() < 0.15 else None
    no_check_size = r.random() < 0.15
    if gtransform or no_check_size:
        # ... so a link to an old file would be an mtime-preserving replacement, which is outside the guarantee
        edit_kinds = ["to-symlink-to-fresh-file" if e == "to-symlink-to-old-file-of-other-length" else
                      "rewrite-other-len" if e == "replaced-by-old-file-of-other-length" else e for e in edit_kinds]
    if nroots == 2 and not (gtransform or no_check_size) and r.random() < 0.35:
        # two --isolate roots: a member of the second root that is not the first of its root is replaced by an old file of
        # another length (each path of a root has to be checked, not one per root)
        last = sorted(m for m in members if m.startswith(fse(os.path.join(troot, spec["roots"][-1])) + b"/"))
        if len(last) >= 2:
            v = last[r.randrange(1, len(last))]
            victims = [v] + [x for x in victims if x != v][:len(victims) - 1]
            edit_kinds = edit_kinds[:len(victims)]
            edit_kinds[0] = "replaced-by-old-file-of-other-length"
    # a fifth of the reports are made with -S (the dedupe commands then inherit it from the header)
    gsym = r.random() < 0.2
    if gsym and not (gtransform or no_check_size) and r.random() < 0.5:
        edit_kinds[0] = "to-symlink-to-old-file-of-other-length"
    pd = os.path.join(d, "pause")
    os.makedirs(pd)
    env = gm.env_for(o, home, dict({"FCLONES_VERIF_PAUSE": point, "FCLONES_VERIF_PAUSE_DIR": pd} if point else {}, TZ=tz))
    argv = [fse(common.fclones_bin())] + gm.group_argv(dict(o, transform=gtransform, isolate=(nroots == 2), symbolic_links=gsym), spec["roots"], fmt)
    p = subprocess.Popen(argv, env=env, cwd=troot, stdin=subprocess.DEVNULL, stdout=subprocess.PIPE, stderr=subprocess.PIPE)
    reached = False
    if point:
        name = point.split(":")[0]
        rf_ = os.path.join(pd, name + ".reached")
        t0 = time.time()
        while time.time() - t0 < 30 and p.poll() is None and not os.path.exists(rf_):
            time.sleep(0.001)
        reached = os.path.exists(rf_)
        if reached:
            time.sleep(0.012)  # stay clear of the kernel's coarse mtime clock (see level_note)
            for k, (v, ek) in enumerate(zip(victims, edit_kinds)):
                apply_edit(ek, v, r, d, k)
            time.sleep(0.012)
            with open(os.path.join(pd, name + ".go"), "w"):
                pass
    try:
        out, err = p.communicate(timeout=90)
    except subprocess.TimeoutExpired:
        p.kill()
        p.communicate()
        return [inconclusive("group timed out")]
    if os.path.exists(os.path.join(pd, (point or "x").split(":")[0] + ".watchdog")):
        return [inconclusive("hook watchdog fired")]
    if point and not reached:
        # the pause point was not on this run's path (e.g. X never reached that stage): edit after exit instead
        instant = "t4(" + instant + " not reached)"
    if not reached:
        time.sleep(0.025)
        for k, (v, ek) in enumerate(zip(victims, edit_kinds)):
            apply_edit(ek, v, r, d, k)
    if p.returncode != 0:
        return [inconclusive("group failed: " + err.decode("utf-8", "replace")[-100:])]
    report = out
    op = r.choice(dd.OPS)
    target = os.path.join(d, "moved") if op == "move" else None
    if target:
        os.makedirs(target)
    pre = inventory.take(troot)
    pre_aux = inventory.take(d, digest=False)
    cfg = {}
    if r.random() < 0.3:
        cfg["priority"] = [r.choice(dd.PRIORITIES)]
    if no_check_size:
        cfg["no_check_size"] = True
    if r.random() < 0.3:
        # the replica count given on the dedupe command line instead of inherited from the report
        cfg["n"] = r.choice([1, 1, 2])
        cfg["n_flag"] = r.choice(["-n", "--rf-over"])
    log = os.path.join(d, "shim.log")
    senv = shimlog.shim_env(log, [troot] + ([target] if target else []), ficlone=(op == "dedupe"))
    senv["TZ"] = tz
    dres, dargv = dd.run_dedupe(op, cfg, report, troot, home, target=target, extra_env=senv)
    post = inventory.take(troot)
    tpost = inventory.take(target) if target else {}
    witness = {"case": i, "spec": spec, "instant": instant, "pause_point": point, "victims": [fsd(v) for v in victims],
               "edits": edit_kinds, "TZ": tz, "group_argv": [fsd(a) for a in argv], "group_stderr": err.decode("utf-8", "replace")[-800:],
               "op": op, "fmt": fmt, "dedupe_argv": [fsd(a) for a in dargv], "dedupe_rc": dres.rc,
               "dedupe_stderr": dres.err_text()[-2500:], "report": report.decode("utf-8", "replace")[:3000]}
    if dres.timed_out:
        return [inconclusive("dedupe timed out")]
    if "panicked" in dres.err_text():
        return [violation("C04:%s:panicked" % op, dres.err_text()[-300:], witness)]
    sigi = instant.split("(")[0]
    lost = inventory.digests(pre) - (inventory.digests(post) | inventory.digests(tpost))
    if lost:
        holders = [p_ for p_, rec in pre.items() if rec["type"] == "f" and rec["sha"] in lost]
        ek = sorted({e for v, e in zip(victims, edit_kinds) if v in holders}) or ["unedited-file"]
        witness["lost"] = {"held_by": [fsd(h) for h in holders]}
        return [violation("C04:%s:%s:current-content-destroyed" % (sigi, "+".join(ek)),
                          "`%s` destroyed the current content of %s (edited: %s at %s)" % (op, [fsd(h) for h in holders[:2]], ek, instant),
                          witness, sig=(sigi, tuple(ek), op))]
    if op in ("link", "softlink", "dedupe"):
        for p_, rec in pre.items():
            if rec["type"] != "f":
                continue
            try:
                now = inventory.sha(p_)
            except OSError as e:
                now = "unreadable: %s" % e
            if now != rec["sha"]:
                ek = sorted({e for v, e in zip(victims, edit_kinds) if v == p_}) or ["unedited-file"]
                witness["path"] = fsd(p_)
                return [violation("C04:%s:%s:path-no-longer-reads-current-content" % (sigi, "+".join(ek)),
                                  "after `%s`, %s no longer reads the content it had just before the run (%s)" % (op, fsd(p_), now),
                                  witness, sig=(sigi, tuple(ek), op))]
    ev, fired, junk = shimlog.parse(log)
    nops = len(dd.log_ops(ev, op))
    content_changed = any(e in ("rewrite-same-len", "rewrite-other-len", "append", "truncate", "delete-recreate", "to-symlink-to-fresh-file",
                                "to-symlink-to-old-file-of-other-length", "replaced-by-old-file-of-other-length")
                          for e in edit_kinds)
    sig = (sigi, tuple(sorted(set(edit_kinds))), op, fmt, tz, bool(gtransform), bool(cfg.get("no_check_size")), gsym, cfg.get("n")) if content_changed else None
    skipped = dres.err_text().count("Could not determine files to drop") + dres.err_text().count("Skipping file")
    return [ok(sig, {"instant": instant, "edits": edit_kinds, "op": op, "fmt": fmt, "TZ": tz, "ops_done": nops, "skip_warnings": skipped},
               {"instants": [sigi], "edit_kinds": edit_kinds, "dedupe_ops_done": nops, "groups_or_files_skipped": skipped,
                "pause_reached": 1 if reached else 0, "time_zones": [tz],
                "runs_with_length_check_off": 1 if gtransform or cfg.get("no_check_size") else 0,
                "reports_made_with_symbolic_links_option": 1 if gsym else 0})]


def main(tier, seed, cases=None):
    build.build_rel()
    build.build_shim()
    n = cases or (1000 if tier == "quick" else 8000)
    chk = common.Check("C04", "exploration", tier, seed, RULE,
                       ["edits happen >= 12 ms away from the instants at which fclones reads the clock: file mtimes come from the "
                        "kernel's coarse clock, so an edit within one tick of the report timestamp is outside what can be driven "
                        "deterministically", "mtime-preserving replacement is outside the guarantee and never generated"])
    runner.run_cases(chk, run_case, [(seed, i, tier) for i in range(n)], budget_s=250 if tier == "quick" else 3000)
    return chk.finish()


def replay(path):
    with open(path) as f:
        w = json.load(f)
    build.build_rel()
    build.build_shim()
    chk = common.Check("C04", "exploration", w["tier"], w["seed"], RULE)
    runner.fold(chk, run_case((w["seed"], w["witness"]["case"], w["tier"])))
    return 1 if chk.violations else 0
