"""C20 - files locked by another process are left alone."""
import json
import os
import subprocess
import sys

from .. import build, common, dd, inventory, reports, runner, shimlog
from ..common import fsd, fse
from ..runner import ok, violation, inconclusive
from . import ddcase

RULE = ("a helper process holds fcntl write or read locks (whole file, first byte, a record inside the file, a record past "
        "its end; in a quarter of the cases fclones' own open-for-write of the locked file is refused with EACCES) on a chosen subset of the members that the reference model says "
        "will be dropped (controls: locks on retained members, locks released before the run); each of the five operations "
        "then runs on the real report with and without --no-lock (dedupe with FICLONE emulation). Oracle: without --no-lock "
        "every locked inode's paths are untouched (inode, bytes, mtime) and named by a 'Failed to lock' warning, all other "
        "droppable files are processed exactly as the model says and the processed count excludes the locked ones; with "
        "--no-lock the locked files are processed like the others. non-trivial = run in which >=1 droppable file was locked")

HOLDER = os.path.join(common.HELPERS, "lockholder.py")


def run_case(arg):
    seed, i, tier = arg
    r = common.rng_for(seed, "C20", i)
    sc = ddcase.gen_scenario(r, hostile_p=0.2, allow_symlinks=False)
    sc["cfg"].pop("no_lock", None)
    scratch = common.Scratch("C20")
    try:
        return _run(sc, r, scratch, i)
    finally:
        scratch.cleanup()


def _run(sc, r, scratch, i):
    d = scratch.case_dir("ext4")
    home = os.path.join(d, "home")
    troot, roots_abs = ddcase.materialise(sc, d)
    op, cfg = sc["op"], sc["cfg"]
    res, gargv = ddcase.run_group_for(sc, troot, home)
    if res.timed_out or res.rc != 0:
        return [inconclusive("group failed/timed out")]
    report = res.out
    rep = reports.parse(report, sc["fmt"])
    all_paths = [p for g in rep.groups for p in g["files"]]
    before = inventory.take(troot, digest=True)  # reads every file (atime!) - must precede the snapshot
    snap = dd.snapshot(all_paths)
    if any(v is None or v["btime"] is None for v in snap.values()):
        return [inconclusive("stat failed / no btime")]
    eff = ddcase.effective(sc, roots_abs)
    expected, kept = set(), set()
    for g in rep.groups:
        files = [p for p in g["files"] if snap[p]["size"] == g["len"]]
        dr, kp, _ = dd.expected_drops(files, snap, eff, "doc")
        dr2, _, _ = dd.expected_drops(files, snap, eff, "alt")
        if set(dr) != set(dr2):
            return [inconclusive("ambiguous sub-group keys")]
        expected |= set(dr)
        kept |= set(kp)
    if not expected:
        return []
    no_lock = r.random() < 0.3
    variant = r.choice(["drop", "drop", "drop", "kept-control", "released-control"])
    lock_mode = r.choice(["ex", "sh"])
    # the byte range held by the foreign process: whole file, a record inside it, a record past its end
    # (SQLite keeps its locks at 0x40000000), the first byte only
    lock_range = r.choice([(0, 0), (0, 0), (1, 1), (16, 4096), (0x40000000, 510), (0, 1), (2, 0)])
    pool = sorted(expected) if variant != "kept-control" else sorted(kept)
    if not pool:
        return []
    locked = r.sample(pool, r.randrange(1, min(3, len(pool)) + 1))
    ino = lambda p: (snap[p]["dev"], snap[p]["ino"])  # noqa: E731
    locked_inodes = {ino(p) for p in locked}
    target = os.path.join(d, "moved") if op == "move" else None
    holder = subprocess.Popen([sys.executable, HOLDER], stdin=subprocess.PIPE, stdout=subprocess.PIPE)
    try:
        holder.stdin.write((json.dumps([[p.hex(), lock_mode, lock_range[0], lock_range[1]] for p in locked]) + "\n").encode())
        holder.stdin.flush()
        line = holder.stdout.readline()
        if line.strip() != b"ready":
            return [inconclusive("lock holder failed")]
        if variant == "released-control":
            holder.stdin.close()
            holder.wait(timeout=10)
        rcfg = dict(cfg)
        if no_lock:
            rcfg["no_lock"] = True
        log = os.path.join(d, "shim.log")
        # a quarter of the plain lock cases: fclones cannot even open the locked file for writing (a read-only file seen by
        # an unprivileged user; here EACCES injected into its first open of that path) - the foreign lock still holds
        denied = variant == "drop" and not no_lock and r.random() < 0.25
        plan = shimlog.plan(*[shimlog.rule("open", p, 1, "fail:13", exact=True) for p in locked]) if denied else None
        env = shimlog.shim_env(log, [troot] + ([target] if target else []), plan, ficlone=(op == "dedupe"))
        rres, rargv = dd.run_dedupe(op, rcfg, report, troot, home, target=target, extra_env=env)
        after = inventory.take(troot, digest=True)
    finally:
        try:
            holder.stdin.close()
        except Exception:
            pass
        try:
            holder.wait(timeout=10)
        except Exception:
            holder.kill()
    witness = {"case": i, "scenario": {k: sc[k] for k in ("group", "fmt", "op", "cfg")}, "spec": sc["spec"], "variant": variant,
               "lock_mode": lock_mode, "lock_range_start_len": list(lock_range), "open_for_write_denied": denied, "no_lock": no_lock, "locked": [fsd(p) for p in locked],
               "argv": [fsd(a) for a in rargv], "rc": rres.rc, "stderr": rres.err_text()[-2500:],
               "report": report.decode("utf-8", "replace")[:3000]}
    if rres.timed_out:
        return [inconclusive("dedupe timed out")]
    if "panicked" in rres.err_text():
        return [violation("C20:%s:panicked" % op, rres.err_text()[-300:], witness)]
    ev, fired, junk = shimlog.parse(log)
    lops = dd.log_ops(ev, op)
    if op == "move":
        done = {o[1] for o in lops if o[0] in ("move", "move-unlink")}
    elif op == "remove":
        done = {o[1] for o in lops if not dd.TEMP_SUFFIX.search(o[1])}
    else:
        done = {o[1] for o in lops}
    lock_active = variant in ("drop", "kept-control") and not no_lock
    protected = {p for p in expected if ino(p) in locked_inodes} if lock_active else set()
    must_process = expected - protected
    touched_protected = sorted(p for p in protected if p in done or p not in after
                               or not inventory.same_entry(before[p], after[p]))
    if touched_protected:
        witness["touched_locked"] = [fsd(p) for p in touched_protected]
        return [violation("C20:%s:locked-file-processed" % op,
                          "`%s` processed %d file(s) on which another process holds a %s lock: %s"
                          % (op, len(touched_protected), "write" if lock_mode == "ex" else "read", [fsd(p) for p in touched_protected[:2]]),
                          witness, sig=(op, variant, lock_mode, no_lock))]
    if done != must_process:
        witness["mismatch"] = {"not_processed": [fsd(p) for p in sorted(must_process - done)[:6]],
                               "unexpectedly_processed": [fsd(p) for p in sorted(done - must_process)[:6]]}
        return [violation("C20:%s:%s:other-files-not-processed-normally" % (op, "no-lock" if no_lock else "lock"),
                          "the remaining files were not processed as the model says (%d missing, %d extra)"
                          % (len(must_process - done), len(done - must_process)), witness)]
    if lock_active:
        errt = rres.err_text()
        if protected and "Failed to lock" not in errt and not (denied and "Failed to open file" in errt):
            return [violation("C20:%s:no-warning-for-locked-file" % op, "no 'Failed to lock file' warning was logged", witness)]
        summ = dd.summary(errt)
        if summ and summ["count"] != len(must_process):
            witness["summary"] = summ
            return [violation("C20:%s:processed-count-includes-locked" % op,
                              "summary says %d files processed, %d expected" % (summ["count"], len(must_process)), witness)]
    sig = (op, variant, lock_mode, lock_range, no_lock, denied, len(locked), sc["fmt"]) if variant == "drop" else None
    counts = {"locked_files": len(locked), "ops": [op], "variants": [variant + ("/no-lock" if no_lock else "")]}
    return [ok(sig, {"op": op, "variant": variant, "lock": lock_mode, "range": list(lock_range), "no_lock": no_lock, "locked": len(locked),
                     "processed": len(done)}, counts)]


def main(tier, seed, cases=None):
    build.build_rel()
    build.build_shim()
    n = cases or (800 if tier == "quick" else 5000)
    chk = common.Check("C20", "exploration", tier, seed, RULE,
                       ["POSIX fcntl record locks held by a separate Python process", "reference drop model of C08"])
    runner.run_cases(chk, run_case, [(seed, i, tier) for i in range(n)], budget_s=240 if tier == "quick" else 3000)
    return chk.finish()


def replay(path):
    with open(path) as f:
        w = json.load(f)
    build.build_rel()
    build.build_shim()
    chk = common.Check("C20", "exploration", w["tier"], w["seed"], RULE)
    runner.fold(chk, run_case((w["seed"], w["witness"]["case"], w["tier"])))
    return 1 if chk.violations else 0
