"""C03 - every duplicate among the scanned files is reported, exactly once."""
import json

from .. import build, common, runner
from . import gmcase
from .C01 import gm_selfcheck

RULE = ("seeded trees (classes of 1..N files over several dirs/roots, hard links, decoys at stage thresholds) x "
        "sampled group configurations incl. --rf-over/--rf-under/--unique, -H, transform, cache, hash fn, "
        "pools, disk kinds; the report must equal the reference partition (group by bytes, documented replica "
        "rule), list no path twice and no unselected path, and a healthy tree must produce no hash-failure "
        "warning. non-trivial = expected partition non-empty; distinct = distinct (tree shape, option tuple)")


def main(tier, seed, cases=None):
    build.build_rel()
    n = cases or (600 if tier == "quick" else 12000)
    chk = common.Check("C03", "exploration", tier, seed, RULE,
                       ["reference partition groups by SHA-256 of the bytes read by Python",
                        "replica rule transcribed from README 'Handling links'"])
    if not gm_selfcheck(chk):
        return 2
    runner.run_cases(chk, gmcase.run_case, [(seed, "C03", i, tier) for i in range(n)],
                     budget_s=240 if tier == "quick" else 3000)
    return chk.finish()


def replay(path):
    with open(path) as f:
        w = json.load(f)
    build.build_rel()
    chk = common.Check("C03", "exploration", w["tier"], w["seed"], RULE)
    runner.fold(chk, gmcase.run_case((w["seed"], "C03", w["witness"]["case"], w["tier"])))
    return 1 if chk.violations else 0
