"""C15 - an unreadable or vanishing file affects only itself (read-path fault enumeration)."""
import errno
import json
import os

from .. import build, common, gm, reports, runner, shimlog, tree
from ..common import fsd, fse
from ..runner import ok, violation, inconclusive

RULE = ("scenario trees (hard-link sets, classes leaving at the prefix, suffix and content stage, nested directories, a decoy, "
        "a unique file) x configurations (disk kind pinned to ssd/hdd/unknown, ext4/tmpfs, thread pools, the tree given as one root or as a "
        "list of directories and files on --stdin, where faults on the input paths themselves are included); a recording run "
        "under the shim counts, per path, the stat/open/read/opendir/readdir/fiemap calls; then for every file or directory "
        "X and every observed call position one run injects EACCES, EIO or ENOENT into exactly that call (exact path match, "
        "n-th per path); (thorough) pairs of faults on two files. Oracle: exit 0 with a complete report that equals the "
        "reference partition of the tree without X (without X's subtree for a directory; entries not yet returned by a "
        "failed readdir are don't-care; a failed FIEMAP query must change nothing; a failed stat after which the report is exactly the fault-free one, i.e. "
        "whose result was not needed, is accepted); a warning names X unless the error was "
        "ENOENT. non-trivial = case whose fault fired; a case whose fault never fired is inconclusive")

ERRNOS = [errno.EACCES, errno.EIO, errno.ENOENT]
CONFIGS = [
    {"kind": "ssd", "fs": "ext4", "threads": None},
    {"kind": "hdd", "fs": "ext4", "threads": None, "inputs": "stdin"},
    {"kind": "hdd", "fs": "ext4", "threads": None},
    {"kind": "unknown", "fs": "ext4", "threads": ["default:2,2"]},
    {"kind": "ssd", "fs": "tmpfs", "threads": ["1"]},
    {"kind": "hdd", "fs": "tmpfs", "threads": None},
    {"kind": None, "fs": "ext4", "threads": ["main:1", "default:1,1"]},
    {"kind": "ssd", "fs": "tmpfs", "threads": ["main:1"], "inputs": "stdin"},
    # searches in which a file can be reported without the contents stage having read it: a file that is alone in its
    # class (--unique), or no contents stage at all (--skip-content-hash: classes by size, prefix and suffix)
    {"kind": "ssd", "fs": "ext4", "threads": None, "rf": ("unique", None)},
    {"kind": "ssd", "fs": "ext4", "threads": None, "skip_content_hash": True},
    # an external transform that reads the file itself ($IN with --no-copy) and hands its output over through $OUT:
    # the faults then hit the child process (the interposer is inherited), which gives up with a non-zero status
    {"kind": "ssd", "fs": "ext4", "threads": None, "transform": "in_out_dd", "no_copy": True},
    {"kind": "hdd", "fs": "ext4", "threads": ["default:3,3"], "transform": "in_cat", "no_copy": True},
    # a transform fed through a pipe whose process dies from a signal on about half of the files after 64 bytes of output:
    # those files are "not read completely" already in the fault-free run and must be left out, with a warning
    {"kind": "ssd", "fs": "ext4", "threads": None, "transform": "killodd"},
]

# with "inputs": "stdin" the same files are handed over as a list of directories and single files on standard input
# (which fclones does not check for existence up front), so that a fault on an input path is a per-entry fault too
STDIN_INPUTS = ["r0/sub", "r0/a1", "r0/other dir", "r0/c", "r0/d1", "r0/e-decoy", "r0/g3", "r0/unique"]


def inputs_for(cfg, si, ci):
    r = common.rng_for(si, "C15inputs", ci)
    l = list(STDIN_INPUTS)
    r.shuffle(l)
    return l


def scenario_spec(si):
    big = 70000 + si
    e = [{"t": "d", "p": "r0"}, {"t": "d", "p": "r0/sub"}, {"t": "d", "p": "r0/sub/deep"}, {"t": "d", "p": "r0/other dir"}]
    def f(p, fam, L, flip=(), mt=1):
        e.append({"t": "f", "p": p, "fam": fam, "len": L, "flip": list(flip), "mtime": mt})
    f("r0/a1", 11 + si, 100)
    e.append({"t": "h", "p": "r0/other dir/a2", "to": "r0/a1"})
    f("r0/sub/b", 11 + si, 100)
    f("r0/c", 11 + si, 100)
    f("r0/d1", 22 + si, big)
    f("r0/sub/d2", 22 + si, big)
    f("r0/other dir/d3", 22 + si, big)
    f("r0/e-decoy", 22 + si, big, flip=(big // 2,))
    f("r0/sub/f1", 33 + si, 20000)
    f("r0/sub/f2", 33 + si, 20000)
    e.append({"t": "h", "p": "r0/sub/deep/f3", "to": "r0/sub/f2"})
    f("r0/sub/deep/g1", 44 + si, 5000)
    f("r0/sub/deep/g2", 44 + si, 5000)
    f("r0/g3", 44 + si, 5000)
    f("r0/unique", 55 + si, 5000)
    return {"entries": e, "roots": ["r0"]}


def run_group(cfg, troot, home, plan, log, inputs=None):
    o = {"hash_fn": "metro", "kind": cfg["kind"], "threads": cfg["threads"], "rf": cfg.get("rf"),
         "skip_content_hash": cfg.get("skip_content_hash"), "transform": cfg.get("transform"), "no_copy": cfg.get("no_copy")}
    env = gm.env_for(o, home, shimlog.shim_env(log, [troot], plan))
    evf = log + ".events"
    if os.path.exists(evf):
        os.unlink(evf)
    env["FCLONES_VERIF_EVENTS"] = evf  # hook H5: permits of the open-files semaphore at the start and at the end of grouping
    extra, stdin, roots = ([], None, ["r0"])
    if inputs:
        extra, stdin, roots = (["--stdin"], ("\n".join(inputs) + "\n").encode(), [])
    argv = [fse(common.fclones_bin())] + gm.group_argv(o, roots, "json", extra)
    res = run_watched(argv, env, troot, stdin)
    res.permits = open_file_permits(evf)
    return res, argv


def open_file_permits(evf):
    """(permits at the start of grouping, permits at its end) from the event log of hook H5, None where not logged."""
    import json
    start = end = None
    try:
        with open(evf, "rb") as f:
            for line in f:
                try:
                    e = json.loads(line)
                except ValueError:
                    continue
                if e.get("k") == "sem.open_files":
                    w, _, n = e.get("d", "").partition(" ")
                    if w == "start":
                        start = int(n)
                    elif w == "end":
                        end = int(n)
    except OSError:
        pass
    return (start, end)


def run_watched(argv, env, cwd, stdin, timeout=40):
    """Like common.run, but a run that does not end is examined before it is killed: all threads asleep and no
    CPU progress means it hangs (a violation: 'the run still finishes'), anything else is inconclusive."""
    import subprocess
    p = subprocess.Popen(argv, env=env, cwd=cwd, stdin=subprocess.PIPE, stdout=subprocess.PIPE, stderr=subprocess.PIPE)
    import time
    t0 = time.time()
    try:
        out, err = p.communicate(stdin if stdin is not None else b"", timeout=timeout)
        res = common.RunResult(p.returncode, out, err, time.time() - t0)
        res.hung = False
    except subprocess.TimeoutExpired:
        hung = common.process_quiescent(p.pid)
        p.kill()
        out, err = p.communicate()
        res = common.RunResult(None, out, err, time.time() - t0, timed_out=True)
        res.hung = hung
    return res


def coarse_key(p):
    """--skip-content-hash compares size, beginning and end only (the tree's one-byte variants differ in the middle)."""
    import hashlib
    with open(p, "rb") as f:
        b = f.read()
    return (len(b), hashlib.sha256(b[:4096]).hexdigest(), hashlib.sha256(b[-4096:]).hexdigest())


def file_table(troot, cfg=None):
    roots_abs = [fse(os.path.join(troot, "r0"))]
    scanned = gm.scan_plain(roots_abs)
    if cfg and cfg.get("skip_content_hash"):
        return {p: {"key": coarse_key(p), "id": fid} for p, fid in scanned.items()}
    return {p: {"key": gm.file_key(p, {"transform": cfg["transform"]} if cfg and cfg.get("transform") == "killodd" else {}), "id": fid}
            for p, fid in scanned.items()}


def restrict(groups, dontcare, files, singles=False):
    """Removes don't-care paths from reported groups and drops groups that fall to <=1 replica (under --unique:
    groups that contained a don't-care path at all, since their being reported depended on it)."""
    out = set()
    dc_keys = {files[p]["key"] for p in dontcare if p in files}
    for g in groups:
        rest = frozenset(p for p in g if p not in dontcare)
        if singles:
            # whether a class is reported under --unique depends on how many of its members were seen
            if rest == g and not any(files[p]["key"] in dc_keys for p in g if p in files):
                out.add(rest)
        elif len({files[p]["id"] for p in rest if p in files}) > 1:
            out.add(rest)
    return out


def run_case(arg):
    seed, si, ci, chunk, nchunks, tier = arg
    cfg = CONFIGS[ci % len(CONFIGS)]
    scratch = common.Scratch("C15")
    try:
        d = scratch.case_dir(cfg["fs"])
        troot = os.path.join(d, "t")
        home = os.path.join(d, "home")
        spec = scenario_spec(si)
        tree.materialise(spec, troot)
        files = file_table(troot, cfg)
        mo = {"rf": cfg.get("rf")}
        full = gm.expected_partition(files, mo, None)
        log = os.path.join(d, "rec.log")
        inputs = inputs_for(cfg, si, ci) if cfg.get("inputs") == "stdin" else None
        res, argv = run_group(cfg, troot, home, None, log, inputs)
        if res.rc != 0:
            return [inconclusive("recording run failed")]
        rep = reports.parse_json(res.out)
        if rep.partition() != full:
            return [violation("C15:baseline-differs", "fault-free run differs from the reference partition",
                              {"cfg": cfg, "diff": gm.describe_partition_diff(full, rep.partition())})]
        if cfg.get("transform") == "killodd":
            # every file whose transform process was killed is named by a warning (one path per inode suffices)
            errt = res.err_text()
            by_id = {}
            for p_, rec in files.items():
                if rec["key"] is None:
                    by_id.setdefault(rec["id"], []).append(os.path.basename(p_).decode("utf-8", "replace"))
            silent = [names for names in by_id.values() if not any(n in errt for n in names)]
            if not by_id:
                return [inconclusive("the transform was killed on no file of this scenario")]
            if silent:
                return [violation("C15:baseline:killed-transform-without-warning",
                                  "no warning names %s although its transform process died from a signal" % silent[0],
                                  {"cfg": cfg, "stderr": errt[-1500:]})]
        ev, _, _ = shimlog.parse(log)
        counts = {}
        for e in ev:
            if e.op in ("stat", "open", "read", "opendir", "readdir", "fiemap", "readlink") and (e.op != "open" or e.ret >= 0):
                counts[(e.p1, e.op)] = counts.get((e.p1, e.op), 0) + 1
        root_abs = fse(os.path.join(troot, "r0"))
        main_pid = ev[0].pid if ev else None
        child_opens = {e.p1 for e in ev if e.op == "open" and e.ret >= 0 and e.pid != main_pid}
        # classify every open of a path: an open followed by a FIEMAP ioctl is the extent query (an optimisation
        # whose failure must change nothing), the others are opens for hashing
        open_kinds = {}
        cur = {}
        for e in ev:
            if e.op == "open" and e.ret >= 0:
                open_kinds.setdefault(e.p1, []).append("hash")
                cur[e.p1] = len(open_kinds[e.p1]) - 1
            elif e.op == "fiemap" and e.p1 in cur:
                open_kinds[e.p1][cur[e.p1]] = "fiemap"
        specs = []
        for (p, op), n in sorted(counts.items()):
            if p == root_abs and op != "readdir":
                continue  # an unusable input path is a usage error, not a per-file fault
            if not os.path.lexists(p):
                continue  # probes for ignore files etc.
            for nth in range(1, n + 1):
                for en in ERRNOS:
                    if op == "open" and cfg.get("no_copy"):
                        # counters are per process: the n-th open of p fails in fclones (only its extent query opens
                        # files here) and in the transform child alike. Which path of a hard-linked file the child is
                        # given is not determined, so those are left out.
                        linked = p in files and sum(1 for q in files.values() if q["id"] == files[p]["id"]) > 1
                        if nth == 1 and not linked:
                            specs.append((p, "open-child" if p in child_opens else "open-fiemap", 1, en, None))
                    elif op == "open":
                        kind = (open_kinds.get(p) or ["hash"] * n)[nth - 1]
                        specs.append((p, "open-" + kind, nth, en, None))
                    else:
                        specs.append((p, op, nth, en, None))
        if not cfg.get("no_copy"):
            # persistent faults: every stat / open / read of one file fails (a file that stays unreadable, as opposed to
            # a single failing call)
            for p in sorted(files):
                # (not for hard-linked files: which of their paths fclones reads is not determined, and the others are
                # opened for the extent query only)
                if sum(1 for q in files.values() if q["id"] == files[p]["id"]) > 1:
                    continue
                for op in ("stat", "open", "read"):
                    if counts.get((p, op)):
                        for en in ERRNOS:
                            specs.append((p, op + "-all", 0, en, None))
        if tier == "thorough":
            fl = sorted(p for p in files)
            for a in range(len(fl)):
                for b in range(a + 1, len(fl)):
                    specs.append((fl[a], "read", 1, errno.EIO, (fl[b], "read", 1, errno.EACCES)))
        out = []
        for idx, sp in enumerate(specs):
            if idx % nchunks != chunk:
                continue
            reps = 3 if files.get(sp[0]) and sum(1 for q in files.values() if q["id"] == files[sp[0]]["id"]) > 1 else 1
            for rep_i in range(reps):
                out.append(_one(cfg, ci, si, troot, home, d, files, full, sp, inputs, mo))
        return out
    finally:
        scratch.cleanup()


def _one(cfg, ci, si, troot, home, d, files, full, sp, inputs=None, mo=None):
    mo = mo or {}
    X, op, nth, en, second = sp
    harmless = op in ("fiemap", "open-fiemap")
    shim_op = "open" if op.startswith("open-") else op[:-4] if op.endswith("-all") else op
    rules = [shimlog.rule(shim_op, X, nth, "fail:%d" % en, exact=True)]
    if op == "open-hash":
        # fclones retries an open without O_NOATIME: the logical open fails only if the retry fails too
        rules.append(shimlog.rule(shim_op, X, nth + 1, "fail:%d" % en, exact=True))
    if second:
        rules.append(shimlog.rule(second[1], second[0], second[2], "fail:%d" % second[3], exact=True))
    log = os.path.join(d, "fault.log")
    if os.path.exists(log):
        os.unlink(log)
    res, argv = run_group(cfg, troot, home, shimlog.plan(*rules), log, inputs)
    ev, fired, junk = shimlog.parse(log)
    is_dir = os.path.isdir(X)
    witness = {"scenario": si, "config": cfg, "stdin_inputs": inputs, "fault": {"path": fsd(X), "op": op, "nth": nth, "errno": en,
                                                       "second": [fsd(second[0])] + list(second[1:]) if second else None},
               "argv": [fsd(a) for a in argv], "rc": res.rc, "stderr": res.err_text()[-2500:], "fired": fired}
    if res.timed_out:
        if getattr(res, "hung", False):
            return violation("C15:%s@%s:%s:run-hangs" % ("dir" if is_dir else "file", op, errno.errorcode[en]),
                             "group does not finish after %s on %s (%s #%d): all threads asleep, no progress"
                             % (errno.errorcode[en], fsd(X), op, nth), witness, sig=(ci, "hang"))
        return inconclusive("group timed out under fault")
    if len(fired) < len(rules):
        return inconclusive("planned fault never fired")
    op_for_sig = op
    sigbase = "%s@%s:%s" % ("dir" if is_dir else "file", op, errno.errorcode[en])
    if res.rc != 0 or "panicked" in res.err_text():
        return violation("C15:%s:run-failed" % sigbase, "group exited %s: %s" % (res.rc, res.err_text()[-300:]), witness,
                         sig=(ci, sigbase))
    # conservation: whatever failed, every permit of the open-files semaphore taken during grouping is back at its end
    # (a permit lost on an error path shrinks the pool for the rest of the run: enough failing files and it hangs)
    st_, en_ = getattr(res, "permits", (None, None))
    if st_ is not None and en_ is not None and st_ != en_:
        witness["open_file_permits"] = {"at_start": st_, "at_end": en_}
        return violation("C15:%s:open-file-permit-not-returned" % sigbase,
                         "after %s on %s (%s #%d) the open-files semaphore holds %d permits at the end of grouping, %d at its start"
                         % (errno.errorcode[en], fsd(X), op, nth, en_, st_), witness, sig=(ci, sigbase, "permits"))
    try:
        rep = reports.parse_json(res.out)
    except Exception as e:
        return violation("C15:%s:report-incomplete" % sigbase, "report not parsable: %s" % e, witness, sig=(ci, sigbase))
    got = rep.partition()
    gone = {X} | ({second[0]} if second else set())
    dontcare = set()
    if harmless:
        remaining = dict(files)
    elif is_dir:
        sub = {p for p in files if p.startswith(X.rstrip(b"/") + b"/")}
        if op == "readdir":
            dontcare = sub
            remaining = {p: v for p, v in files.items() if p not in sub}
        elif op in ("opendir",):
            remaining = {p: v for p, v in files.items() if p not in sub}
        else:
            remaining = dict(files)  # a stat of a directory is not issued by the walk; keep everything
            dontcare = sub
    else:
        remaining = {p: v for p, v in files.items() if p not in gone}
    expected = gm.expected_partition(remaining, mo, None)
    singles = bool(mo.get("rf"))
    got_cmp = restrict(got, dontcare, files, singles) if dontcare else got
    exp_cmp = restrict(expected, dontcare, files, singles) if dontcare else expected
    # a failed stat whose result fclones did not need (the is-it-a-file probe on an input path; a later stat of the
    # same path succeeds and the file is read completely) legitimately changes nothing
    unaffected = op == "stat" and got == full
    if unaffected:
        harmless = True
    elif got_cmp != exp_cmp:
        dd_ = gm.describe_partition_diff(exp_cmp, got_cmp)
        witness["diff"] = dd_
        hard = (not is_dir) and sum(1 for q in files.values() if q["id"] == files[X]["id"]) > 1
        kind = "other-files-affected"
        if hard and any(files[p]["id"] == files[X]["id"] for g in (exp_cmp - got_cmp) for p in g):
            kind = "hard-link-siblings-dropped"
        if any(X in g for g in got_cmp) and not harmless:
            kind = "failed-file-still-reported"
        return violation("C15:%s:%s" % (sigbase, kind),
                         "fault %s on %s (%s #%d): report differs from the partition without it: %d classes missing, %d unexpected"
                         % (errno.errorcode[en], fsd(X), op, nth, dd_["n_missing"], dd_["n_extra"]), witness, sig=(ci, sigbase))
    if en != errno.ENOENT and not harmless:
        errt = res.err_text()
        names = os.path.basename(X).decode("utf-8", "replace")
        if "warn" not in errt or names not in errt:
            return violation("C15:%s:no-warning" % sigbase, "no warning names %s after %s on %s #%d" % (fsd(X), errno.errorcode[en], op, nth),
                             witness, sig=(ci, sigbase))
    sig = (si, ci, fsd(X), op, nth, en, bool(second))
    return ok(sig, {"config": cfg, "fault": witness["fault"]} if nth == 1 and en == errno.EIO and op.startswith("open") else None,
              {"faults_fired": len(fired), "ops": [op], "configs": [ci], "pairs": 1 if second else 0,
               "stat_faults_without_effect": 1 if unaffected else 0, "faults_on_stdin_input_paths": 1 if inputs and op == "stat" else 0,
               "runs_with_open_file_permits_conserved": 1 if st_ is not None and st_ == en_ else 0})


def main(tier, seed, cases=None):
    build.build_rel()
    build.build_shim()
    nscn = 1 if tier == "quick" else 3
    ncfg = cases or len(CONFIGS)
    nchunks = 4 if tier == "quick" else 8
    chk = common.Check("C15", "fault_enumeration", tier, seed, RULE,
                       ["faults are injected at libc level by the shim (root ignores permission bits, so chmod cannot be used)",
                        "reference partition by SHA-256 of bytes"])
    args = [(seed, si, ci, c, nchunks, tier) for si in range(nscn) for ci in range(ncfg) for c in range(nchunks)]
    runner.run_cases(chk, run_case, args, budget_s=270 if tier == "quick" else 3300)
    return chk.finish()


def replay(path):
    with open(path) as f:
        w = json.load(f)
    return main(w["tier"], w["seed"])
