"""One execution of `fclones group` on a generated tree, judged by the C01 and C03 oracles."""
import os
import subprocess

from .. import common, gm, reports, shimlog, tree
from ..common import fsd, fse
from ..runner import ok, violation, inconclusive


def _transform_bytes(o, path, env):
    """Transform output computed by running the real command ourselves (independent of fclones)."""
    name = o["transform"]
    cmd = gm.TRANSFORMS[name][0]
    with open(path, "rb") as f:
        data = f.read()
    return gm.TRANSFORMS[name][1](data)


def twin_fs_spec(r, o):
    """Two roots that will each be a freshly mounted tmpfs, filled in the same order, so that the k-th object of one
    has the same inode number as the k-th object of the other (on different devices): same content, other content of
    the same length, a one-byte variant, or another length."""
    entries = [{"t": "d", "p": "r0"}, {"t": "d", "p": "r1"}]
    per_root = {"r0": [], "r1": []}
    nd = r.randrange(0, 3)
    for rt in ("r0", "r1"):
        for k in range(nd):
            per_root[rt].append({"t": "d", "p": "%s/d%d" % (rt, k)})
    mt = 0
    for k in range(r.randrange(3, 9)):
        fam = r.randrange(1, 10 ** 6)
        L = r.choice([1, 100, 300, 4096, 5000, 20000, 70000, 200000])
        dn = "" if nd == 0 or r.random() < 0.4 else "d%d/" % r.randrange(nd)
        kind = r.choice(["same", "same", "other-family", "one-byte", "one-byte", "other-length"])
        twin = {"same": (fam, L, []), "other-family": (fam + 1, L, []),
                "one-byte": (fam, L, [r.choice([0, L // 2, L - 1, min(L - 1, 10000)])]),
                "other-length": (fam, L + r.choice([1, 200]), [])}[kind]
        mt += 1
        per_root["r0"].append({"t": "f", "p": "r0/%sf%d" % (dn, k), "fam": fam, "len": L, "flip": [], "mtime": mt})
        per_root["r1"].append({"t": "f", "p": "r1/%sf%d" % (dn, k), "fam": twin[0], "len": twin[1], "flip": twin[2], "mtime": mt})
        if r.random() < 0.5:
            # a second file of the same length in both mounts, so that the pair survives the size stage anyway
            mt += 1
            per_root["r0"].append({"t": "f", "p": "r0/%sg%d" % (dn, k), "fam": fam, "len": L, "flip": [], "mtime": mt})
            per_root["r1"].append({"t": "f", "p": "r1/%sg%d" % (dn, k), "fam": fam + 2, "len": L, "flip": [], "mtime": mt})
    entries += per_root["r0"] + per_root["r1"]
    classes = {}
    for e in entries:
        if e["t"] == "f":
            classes.setdefault((e["fam"], e["len"], tuple(e["flip"])), []).append(e["p"])
    meta = {"classes": [{"fam": k[0], "len": k[1], "flip": list(k[2]), "members": v,
                         **({"decoy_of": 0} if k[2] else {})} for k, v in classes.items()]}
    return {"entries": entries, "roots": ["r0", "r1"], "twin_fs": True}, meta


MiB = 1 << 20
SLOW_HASHES = ("sha256", "sha512", "sha3-256", "sha3-512")


def sparse_spec(r, o, tier="thorough"):
    """Files far beyond the sizes random data can be generated for: 64 MiB (where the suffix stage starts on a rotational
    or unknown device) up to just past 2^32 bytes, as holes with a few marked bytes. Every class has same-length decoys
    that differ in one byte at an offset next to a stage boundary or a power of two."""
    o.update(transform=None, fs="ext4", cache=None if o["cache"] == "warm" else o["cache"])
    huge = r.random() < 0.2
    if huge and tier == "quick" and o["hash_fn"] in SLOW_HASHES:
        o["hash_fn"] = r.choice(["metro", "xxhash", "blake3"])  # 3 x 2 GiB through sha3-512 take half a minute
    if huge:
        lens = [(1 << 31) + 3] if o["hash_fn"] in SLOW_HASHES else [r.choice([(1 << 32) + 5, (1 << 32) + 70000, (1 << 31) + 3])]
    else:
        lens = r.sample([64 * MiB - 1, 64 * MiB, 64 * MiB + 1, 64 * MiB + 16384, 64 * MiB + 16385, 80 * MiB, 100 * MiB + 123,
                         16 * MiB, 9 * MiB + 1], r.randrange(1, 4))
    entries = [{"t": "d", "p": "r0"}, {"t": "d", "p": "r0/s"}]
    classes = []
    mt = 0
    k = 0
    P = [4096, 16384] + [x for x in (o["max_prefix"], o["max_suffix"]) if x]
    for ci, L in enumerate(lens):
        base = sorted({r.choice([0, 5, 4095, 70000, L // 3, L - 1, L - 20000]) for _ in range(r.randrange(0, 3))})
        base = [[off, r.randrange(1, 256)] for off in base if 0 <= off < L]
        offs = {0, 1, L // 2, L - 1, L - 2, 65535, 65536, 65537, (1 << 31) - 1, 1 << 31, (1 << 32) - 1, 1 << 32, (1 << 32) + 1,
                64 * MiB - 1, 64 * MiB}
        for p_ in P:
            offs.update((p_ - 1, p_, p_ + 1, L - p_ - 1, L - p_, L - p_ + 1))
        offs = sorted(x for x in offs if 0 <= x < L and all(x != b[0] for b in base))

        def add(marks):
            nonlocal mt, k
            mt += 1
            k += 1
            p = "r0/%sbig%d" % (r.choice(["", "s/"]), k)
            entries.append({"t": "sp", "p": p, "len": L, "marks": marks, "mtime": mt})
            return p
        members = [add(base) for _ in range(r.randrange(1, 3 if huge else 4))]
        classes.append({"fam": -2, "len": L, "flip": [], "members": members})
        if r.random() < 0.3 and not huge:
            p = "r0/hl%d" % k
            entries.append({"t": "h", "p": p, "to": members[0]})
            members.append(p)
        for _ in range(1 if huge else r.randrange(1, 4)):
            off = r.choice(offs)
            dm = [add(sorted(base + [[off, r.randrange(1, 256)]])) for _ in range(r.randrange(1, 3))]
            classes.append({"fam": -2, "len": L, "flip": [off], "members": dm, "decoy_of": ci})
    return {"entries": entries, "roots": ["r0"], "cmd_roots": ["r0"], "sparse": True, "huge": huge}, {"classes": classes}


def build_case(seed, pid, i, tier):
    r = common.rng_for(seed, pid, i)
    o = gm.sample_opts(r)
    if r.random() < (0.03 if tier == "quick" else 0.04):
        return (o,) + sparse_spec(r, o, tier)
    if r.random() < 0.06:
        # prefix and suffix both as long as whole files, on a device where the suffix stage runs from 64 KiB on
        o.update(kind="ssd", max_prefix=1 << 20, max_suffix=r.choice([1 << 20, 1 << 20, 65536]))
    if r.random() < 0.08:
        o["fs"] = "ext4"
        spec, meta = twin_fs_spec(r, o)
        spec["cmd_roots"] = list(spec["roots"])
        return o, spec, meta
    hostile = 0.5 if r.random() < 0.3 else 0.0
    extra_off = [x for x in (o["max_prefix"], o["max_suffix"]) if x]
    big = r.random() < (0.25 if tier == "thorough" else 0.15)
    n_classes = r.randrange(2, 7)
    lens = None
    if o["kind"] == "ssd" and r.random() < 0.6:
        # make sure the suffix stage (>= 64 KiB on SSD) sees candidates
        lens = [65536, 65537, 70000, 131072, 131073, 200000]
    spec, meta = tree.gen_dup_tree(r, n_classes=n_classes, max_members=4, hostile_p=hostile,
                                   n_dirs=r.randrange(1, 6), extra_offsets=extra_off,
                                   min_len=0 if o["min0"] else 1, lens=lens,
                                   roots=r.choice([1, 1, 2, 3]), concat_collisions=0.3)
    # overlapping / repeated / re-spelled roots on the command line (the scan must list every file once)
    cmd_roots = list(spec["roots"])
    if r.random() < 0.3:
        rt = r.choice(spec["roots"])
        cmd_roots.append(r.choice(["./" + rt, rt + "/", rt + "/../" + rt, rt]))
    if r.random() < 0.2:
        sub = [e["p"] for e in spec["entries"] if e["t"] == "d" and "/" in e["p"]]
        if sub:
            cmd_roots.append(r.choice(sub))
    spec["cmd_roots"] = cmd_roots
    # the same list of input paths may arrive on standard input instead of the command line
    spec["roots_on_stdin"] = r.random() < 0.25
    if spec["roots_on_stdin"] and r.random() < 0.5:
        # ... also as `find`-style output: single files next to the directories that contain them
        fl = [e["p"] for e in spec["entries"] if e["t"] == "f" and "\n" not in e["p"]]
        if fl:
            spec["cmd_roots"] = cmd_roots + r.sample(fl, min(len(fl), r.randrange(1, 4)))
    if o["min0"] and r.random() < 0.5:
        spec["entries"].append({"t": "f", "p": "r0/empty1", "fam": 1, "len": 0, "mtime": 500})
        spec["entries"].append({"t": "f", "p": "r0/empty2", "fam": 1, "len": 0, "mtime": 501})
    return o, spec, meta


def tree_sig(meta):
    return tuple(sorted((c["len"], tuple(c["flip"]), len(c["members"])) for c in meta["classes"]))


def run_case(arg):
    seed, pid, i, tier = arg
    o, spec, meta = build_case(seed, pid, i, tier)
    scratch = common.Scratch(pid)
    try:
        return _run(seed, pid, i, o, spec, meta, scratch)
    finally:
        scratch.cleanup()


def _run(seed, pid, i, o, spec, meta, scratch):
    d = scratch.case_dir(o["fs"])
    troot = os.path.join(d, "t")
    home = os.path.join(d, "home")
    twin = None
    if spec.get("twin_fs"):
        mps = [os.path.join(troot, rt) for rt in spec["roots"]]
        for m in mps:
            os.makedirs(m)
        twin = scratch.mount_tmpfs(mps)
    tree.materialise(spec, troot)
    roots = spec.get("cmd_roots") or spec["roots"]
    roots_abs = [fse(os.path.join(troot, rt)) for rt in spec["roots"]]
    # second monitor of C01 (read coverage): uncached, non-transform runs execute under the interposer
    trace = pid == "C01" and not o["cache"] and not o["transform"] and i % 2 == 0 and not spec.get("huge")
    log = os.path.join(d, "shim.log")
    extra_env = shimlog.shim_env(log, [troot]) if trace else None
    on_stdin = spec.get("roots_on_stdin") and not any("\n" in rt for rt in roots)
    gkw = {"extra_args": ["--stdin"], "stdin": b"".join(fse(rt) + b"\n" for rt in roots)} if on_stdin else {}
    if spec.get("huge"):
        gkw["timeout"] = 600
    res, argv = gm.run_group(o, [] if on_stdin else roots, troot, home, extra_env=extra_env, **gkw)
    if o["cache"] == "warm":
        res, argv = gm.run_group(o, [] if on_stdin else roots, troot, home, **gkw)
    witness = {"case": i, "opts": o, "spec": spec, "argv": [fsd(a) for a in argv], "cwd": troot, "roots_on_stdin": bool(on_stdin),
               "rc": res.rc, "stderr": res.err_text()[-3000:]}
    if res.timed_out:
        return [inconclusive("group timed out")]
    if res.rc != 0:
        return [violation("%s:group-failed" % pid, "fclones group exited %s: %s" % (res.rc, res.err_text()[-300:]),
                          witness)]
    try:
        rep = reports.parse_json(res.out)
    except Exception as e:
        return [violation("%s:unparsable-report" % pid, "report not parsable: %s" % e, witness)]

    counts = {"groups_reported": len(rep.groups), "opts": [gm.opts_sig(o)], "runs_with_input_paths_on_stdin": 1 if on_stdin else 0}
    if spec.get("sparse"):
        counts["trees_of_sparse_files_of_9MiB_to_100MiB"] = 0 if spec["huge"] else 1
        counts["trees_of_sparse_files_of_2GiB_to_4GiB_plus"] = 1 if spec["huge"] else 0
    if twin is not None:
        counts["trees_on_two_fresh_tmpfs_mounts" if twin else "twin_mounts_not_permitted"] = 1
        if twin:
            inos = {}
            for p_ in gm.scan_plain(roots_abs, min_size=0):
                st_ = os.stat(p_)
                inos.setdefault(st_.st_ino, set()).add(st_.st_dev)
            counts["inode_numbers_shared_between_file_systems"] = sum(1 for v in inos.values() if len(v) > 1)
    if pid == "C01":
        if trace:
            bad = _read_coverage(rep, log, witness, counts, o)
            if bad:
                return [bad]
        return _oracle_c01(o, rep, meta, witness, counts, troot)
    return _oracle_c03(o, rep, meta, witness, counts, roots_abs, res)


def _read_coverage(rep, log, witness, counts, o):
    """Every inode of a reported group with >=2 inodes must have been read from byte 0 to its end
    (the streaming hash consumes every byte), as seen in the interposer's event log."""
    ev, fired, junk = shimlog.parse(log)
    by_inode = {}
    ino_of = {}
    for e in ev:
        if e.op == "read" and e.ret > 0:
            try:
                key = ino_of.get(e.p1)
                if key is None:
                    st = os.stat(e.p1)
                    key = ino_of[e.p1] = (st.st_dev, st.st_ino)
            except OSError:
                continue
            by_inode.setdefault(key, []).append((e.x, e.x + e.ret))
    checked = 0
    for g in rep.groups:
        inodes = {}
        for p in g["files"]:
            st = os.stat(p)
            inodes.setdefault((st.st_dev, st.st_ino), p)
        if len(inodes) < 2 or g["len"] == 0:
            continue
        for key, p in inodes.items():
            iv = sorted(by_inode.get(key, []))
            pos = 0
            for a_, b_ in iv:
                if a_ > pos:
                    break
                pos = max(pos, b_)
            checked += 1
            if pos < g["len"]:
                witness["coverage"] = {"path": fsd(p), "len": g["len"], "covered_up_to": pos, "reads": iv[:12]}
                return violation("C01:%s:file-not-read-completely" % _sigparts(o),
                                 "%s (%d bytes) is reported as a duplicate although only bytes [0,%d) of it were ever read"
                                 % (fsd(p), g["len"], pos), witness, counts=counts)
    counts["inodes_with_full_read_coverage"] = checked
    counts["read_events_logged"] = sum(len(v) for v in by_inode.values())
    return None


def _sigparts(o):
    parts = []
    if o["transform"]:
        parts.append("transform")
    if o["kind"]:
        parts.append(o["kind"])
    if o["max_suffix"] is not None:
        parts.append("max-suffix")
    if o["max_prefix"] is not None:
        parts.append("max-prefix")
    if o["cache"]:
        parts.append("cache")
    if o["match_links"]:
        parts.append("match-links")
    if o["rf"]:
        parts.append("rf-" + o["rf"][0])
    return "+".join(parts) or "plain"


def _oracle_c01(o, rep, meta, witness, counts, troot):
    pairs = 0
    nontrivial = False
    decoy_lens = {c["len"] for c in meta["classes"] if c.get("decoy_of") is not None}
    for g in rep.groups:
        files = g["files"]
        datas = []
        for p in files:
            b = tree.content_token(p)
            if o["transform"]:
                b = gm.TRANSFORMS[o["transform"]][1](b)
            datas.append(b)
        first = datas[0]
        if tree.token_len(first) != g["len"]:
            witness["group"] = {"len": g["len"], "files": files, "actual_len": tree.token_len(first)}
            return [violation("C01:%s:printed-length-wrong" % _sigparts(o),
                              "group prints length %d but %s has %d bytes (after transform: %s)"
                              % (g["len"], fsd(files[0]), tree.token_len(first), o["transform"]), witness, counts=counts)]
        for p, b in zip(files[1:], datas[1:]):
            pairs += 1
            if b != first:
                witness["group"] = {"len": g["len"], "files": files}
                off = tree.token_first_diff(first, b)
                return [violation("C01:%s:members-differ" % _sigparts(o),
                                  "group of len %d lists %s and %s which differ at offset %d (lengths %d, %d)"
                                  % (g["len"], fsd(files[0]), fsd(p), off, tree.token_len(first), tree.token_len(b)),
                                  witness, counts=counts)]
        inodes = {(os.stat(p).st_dev, os.stat(p).st_ino) for p in files}
        if len(inodes) >= 2 and (o["transform"] or g["len"] in decoy_lens):
            nontrivial = True
    counts["file_pairs_byte_compared"] = pairs
    sig = (tree_sig(meta), gm.opts_sig(o)) if nontrivial else None
    sample = {"opts": o, "groups": len(rep.groups), "pairs_compared": pairs,
              "classes": [(c["len"], c["flip"], len(c["members"])) for c in meta["classes"]][:6]}
    return [ok(sig, sample, counts)]


def _oracle_c03(o, rep, meta, witness, counts, roots_abs, res):
    scanned = gm.scan_plain(roots_abs, min_size=0 if o["min0"] else 1)
    files = {p: {"key": gm.file_key(p, o), "id": fid} for p, fid in scanned.items()}
    expected = gm.expected_partition(files, o, None)
    listed = [p for g in rep.groups for p in g["files"]]
    sp = _sigparts(o)
    dup = {p for p in listed if listed.count(p) > 1} if len(listed) < 500 else set()
    if dup:
        witness["dup"] = sorted(dup)
        return [violation("C03:%s:path-listed-twice" % sp, "path listed twice: %s" % fsd(sorted(dup)[0]), witness)]
    alien = [p for p in listed if p not in scanned]
    if alien:
        witness["alien"] = alien[:5]
        return [violation("C03:%s:unselected-path-listed" % sp, "path listed that the scan did not select: %s"
                          % fsd(alien[0]), witness)]
    failed = [l for l in res.err_text().splitlines() if "Failed to compute hash" in l or "Failed to" in l and "warn" in l]
    got = rep.partition()
    if got != expected:
        dd = gm.describe_partition_diff(expected, got)
        witness["diff"] = dd
        witness["warnings"] = failed[:5]
        kind = "class-missing" if dd["n_missing"] and not dd["n_extra"] else \
            "class-extra" if dd["n_extra"] and not dd["n_missing"] else "class-split-or-merged"
        if failed:
            kind += "+hash-failure"
        return [violation("C03:%s:%s" % (sp, kind),
                          "reported groups differ from the content partition: %d expected classes not reported as such, "
                          "%d reported groups not expected; first: %s" %
                          (dd["n_missing"], dd["n_extra"], (dd["expected_not_reported"] or dd["reported_not_expected"])[:1]),
                          witness, counts=counts)]
    if failed:
        witness["warnings"] = failed[:5]
        return [violation("C03:%s:readable-file-dropped-with-warning" % sp,
                          "hash failure warning on a healthy tree: %s" % failed[0], witness)]
    counts["classes_expected"] = len(expected)
    counts["files_scanned"] = len(scanned)
    sig = (tree_sig(meta), gm.opts_sig(o)) if expected else None
    sample = {"opts": o, "expected_classes": len(expected), "files": len(scanned)}
    return [ok(sig, sample, counts)]
