"""C07 - `group` and `--dry-run` never modify the scanned tree."""
import json
import os

from .. import build, common, dd, gm, inventory, reports, runner, shimlog, tree
from ..common import fsd, fse
from ..runner import ok, violation, inconclusive
from . import ddcase

H = common.HELPERS
# (name, command, extra flags, expected to succeed)
TRANSFORM_MODES = [
    ("stdin-cat", "cat", []),
    ("stdin-head", "head -c 100", []),
    ("stdin-ignore", H + "/ignore.sh", []),
    ("stdin-fail", H + "/fail.sh", []),
    ("in-cat", "cat $IN", []),
    ("in-readonly", H + "/readonly_in.sh $IN", []),
    ("in-out", H + "/cp.sh $IN $OUT", []),
    ("stdin-out", H + "/to_out.sh $OUT", []),
    ("in-place-copy", H + "/inplace_upper.sh $IN", ["--in-place"]),
    ("in-place-copy-bak", H + "/inplace_bak.sh $IN", ["--in-place"]),
    ("in-bak", H + "/inplace_bak.sh $IN", []),
    ("in-place-nocopy-readonly", H + "/readonly_in.sh $IN", ["--in-place", "--no-copy"]),
    ("in-place-nocopy-true", "true $IN", ["--in-place", "--no-copy"]),
    ("in-nocopy-cat", "cat $IN", ["--no-copy"]),
    ("in-out-nocopy", H + "/cp.sh $IN $OUT", ["--no-copy"]),
]

RULE = ("generated trees (hard links, symlinks, hostile names) x `group` in every transform I/O mode (stdin->stdout, stdin->$OUT, $IN, "
        "$IN+$OUT, --in-place (also with a program that leaves a FILE.bak companion next to its input), --in-place --no-copy and --no-copy with programs that only read, ignore or fail), --cache, "
        "-o file, all formats, and every dedupe operation with --dry-run and random options. Oracle 1: full inventory "
        "(paths, bytes, link structure, inode, mode, mtime_ns) identical before/after, $TMPDIR empty afterwards, nothing but "
        "fclones/ under $XDG_CACHE_HOME. Oracle 2: the LD_PRELOAD log (inherited by transform children) shows zero mutating "
        "calls on paths under the tree. non-trivial = run with a non-empty report or script; distinct = distinct (mode, "
        "options, tree shape)")


def run_case(arg):
    seed, i, tier = arg
    r = common.rng_for(seed, "C07", i)
    scratch = common.Scratch("C07")
    try:
        return _run(r, scratch, i)
    finally:
        scratch.cleanup()


def _check_unchanged(before, troot, home, log, witness, what, sigbase):
    after = inventory.take(troot)
    removed, added, changed = inventory.diff(before, after)
    # directory mtimes are not part of the oracle, but a directory that gained/lost an entry shows as added/removed
    if removed or added or changed:
        witness["diff"] = {"removed": [fsd(p) for p in removed[:8]], "added": [fsd(p) for p in added[:8]],
                           "changed": [fsd(p) for p in changed[:8]]}
        kind = "files-deleted" if removed and not added and not changed else "tree-changed"
        return violation("C07:%s:%s" % (sigbase, kind), "%s changed the scanned tree: %d removed, %d added, %d changed; e.g. %s"
                         % (what, len(removed), len(added), len(changed), [fsd(p) for p in (removed + added + changed)[:2]]),
                         witness)
    ev, fired, junk = shimlog.parse(log)
    tb = fse(troot).rstrip(b"/") + b"/"
    muts = [e for e in ev if e.cls == "MUT" and e.ret >= 0 and any(p.startswith(tb) for p in shimlog.mutated_paths(e))]
    if muts:
        witness["mutating_calls"] = [e.as_dict() for e in muts[:10]]
        return violation("C07:%s:mutating-call-on-tree" % sigbase,
                         "%s issued %d mutating calls on the scanned tree, e.g. %s %s" % (what, len(muts), muts[0].op, fsd(muts[0].p1)),
                         witness)
    tmpd = os.path.join(home, "tmp")
    left = os.listdir(tmpd) if os.path.isdir(tmpd) else []
    if left:
        witness["tmp_left"] = left[:10]
        return violation("C07:%s:temp-files-left" % sigbase, "%s left %d entries in $TMPDIR: %s" % (what, len(left), left[:3]), witness)
    cache = os.path.join(home, ".cache")
    if os.path.isdir(cache):
        extra = [x for x in os.listdir(cache) if x != "fclones"]
        if extra:
            return violation("C07:%s:cache-dir-polluted" % sigbase, "unexpected entries in cache dir: %s" % extra, witness)
    return len(ev)


def _run(r, scratch, i):
    d = scratch.case_dir(r.choice(["ext4", "ext4", "tmpfs"]))
    home = os.path.join(d, "home")
    sc = ddcase.gen_scenario(r, hostile_p=0.3)
    troot, roots_abs = ddcase.materialise(sc, d)
    g = sc["group"]
    mode = None
    extra_args = []
    if r.random() < 0.6:
        mode = r.choice(TRANSFORM_MODES)
        extra_args += ["--transform", mode[1]] + mode[2]
    if r.random() < 0.3:
        g["cache"] = "cold"
    fmt = r.choice(["default", "json", "csv", "fdupes"]) if mode is None else "default"
    outfile = None
    if r.random() < 0.2:
        outfile = os.path.join(d, "report.out")
        extra_args += ["-o", outfile]
    g["kind"] = r.choice(gm.KINDS)
    before = inventory.take(troot)
    log = os.path.join(d, "shim.log")
    env = shimlog.shim_env(log, [troot])
    if mode is not None and r.random() < 0.15:
        # the temporary directory cannot be used ($TMPDIR names a regular file): the run may fail, the tree stays as it is
        notdir = os.path.join(d, "tmpdir-is-a-file")
        with open(notdir, "w") as f:
            f.write("x")
        env["TMPDIR"] = notdir
    res, gargv = gm.run_group(g, sc["spec"]["roots"], troot, home, fmt=fmt, extra_args=extra_args, extra_env=env, timeout=120)
    modename = mode[0] if mode else "plain"
    witness = {"case": i, "mode": modename, "group_argv": [fsd(a) for a in gargv], "rc": res.rc, "stderr": res.err_text()[-2000:],
               "spec": sc["spec"]}
    if res.timed_out:
        return [inconclusive("group timed out in mode %s" % modename)]
    if "panicked" in res.err_text():
        return [violation("C07:%s:group-panicked" % modename, res.err_text()[-300:], witness)]
    out = []
    v = _check_unchanged(before, troot, home, log, witness, "`fclones group` (%s)" % modename, "group:" + modename)
    if isinstance(v, dict):
        return [v]
    counts = {"shim_events": v, "modes": [modename], "group_runs": 1}
    report = res.out
    if outfile and os.path.exists(outfile):
        with open(outfile, "rb") as f:
            report = f.read()
    nontrivial = len(report) > 0 and res.rc == 0
    # dry runs of every dedupe operation on the report (text/json only)
    if res.rc == 0 and fmt in ("default", "json") and report:
        for op in r.sample(dd.OPS, 2):
            cfg = dict(sc["cfg"])
            cfg["dry_run"] = True
            if r.random() < 0.3:
                cfg["output"] = os.path.join(d, "script-%s.out" % op)
            target = os.path.join(d, "moved") if op == "move" else None
            log2 = os.path.join(d, "shim-%s.log" % op)
            env2 = shimlog.shim_env(log2, [troot])
            dres, dargv = dd.run_dedupe(op, cfg, report, troot, home, target=target, extra_env=env2)
            w2 = dict(witness, dedupe_argv=[fsd(a) for a in dargv], dedupe_rc=dres.rc, dedupe_stderr=dres.err_text()[-1500:])
            if dres.timed_out:
                out.append(inconclusive("dry run timed out"))
                continue
            v = _check_unchanged(before, troot, home, log2, w2, "`fclones %s --dry-run`" % op, "dry-run:" + op)
            if isinstance(v, dict):
                return [v]
            if target and os.path.exists(target):
                return [violation("C07:dry-run:move:target-created", "move --dry-run created the target directory", w2)]
            counts["shim_events"] += v
            counts["dry_runs"] = counts.get("dry_runs", 0) + 1
    sig = (modename, fmt, bool(g.get("cache")), g["kind"], tuple(sorted(sc["cfg"])),
           tuple(sorted((c["len"], len(c["members"])) for c in sc["meta"]["classes"]))) if nontrivial else None
    sample = {"mode": modename, "argv": [fsd(a) for a in gargv][1:], "events_logged": counts["shim_events"]}
    out.append(ok(sig, sample, counts))
    return out


def main(tier, seed, cases=None):
    build.build_rel()
    build.build_shim()
    n = cases or (300 if tier == "quick" else 5000)
    chk = common.Check("C07", "exploration", tier, seed, RULE,
                       ["the shim sees every libc-level file call of fclones and of the transform children",
                        "atime is not compared; directory mtimes are not compared"])
    runner.run_cases(chk, run_case, [(seed, i, tier) for i in range(n)], budget_s=240 if tier == "quick" else 3000)
    return chk.finish()


def replay(path):
    with open(path) as f:
        w = json.load(f)
    build.build_rel()
    build.build_shim()
    chk = common.Check("C07", "exploration", w["tier"], w["seed"], RULE)
    runner.fold(chk, run_case((w["seed"], w["witness"]["case"], w["tier"])))
    return 1 if chk.violations else 0
