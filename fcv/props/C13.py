"""C13 - results are deterministic and independent of performance settings; every run terminates."""
import json
import os
import re
import subprocess
import time

from .. import build, common, gm, reports, runner, tree
from ..common import fsd, fse
from ..runner import ok, violation, inconclusive

RULE = ("for a fixed tree and selection the JSON report body (groups, order, path order, lengths, hashes) must be identical "
        "across: repeated runs, 12 --threads specifications (1, 0, 64, main/default/ssd/hdd/unknown pools), permutations of "
        "the roots, --stdin instead of arguments, without and (a quarter of the trees) with an external --transform over files that share base names, CPU affinity 1 or 2 cores (taskset), and seeded jitter at the hook points "
        "(H3) inside the hashing tasks and before the result channel; the partition must moreover be identical across the 7 "
        "hash functions, --max-prefix-size / --max-suffix-size, pinned disk kind and cache cold/warm. Every run has a generous "
        "watchdog; a firing is a violation only if the process is provably quiescent (all threads asleep, no CPU progress), "
        "otherwise inconclusive. The order of hash completions recorded by the event hook measures schedule diversity. "
        "Thorough: the same workload on ThreadSanitizer and AddressSanitizer builds; a report with an fclones frame is a "
        "violation. non-trivial = (tree, setting) pairs with a non-empty report")

THREAD_SPECS = [["1"], ["0"], ["64"], ["main:1"], ["default:1,1"], ["ssd:2,3"], ["hdd:3,2"], ["unknown:2,1"],
                ["main:2", "default:3"], ["ssd:1,1", "hdd:1,1", "unknown:1,1", "main:1"], ["default:16,16"], ["main:64", "default:64,1"]]


def quiescent(pid):
    return common.process_quiescent(pid)


def run_watchdog(argv, env, cwd, stdin=None, timeout=120):
    p = subprocess.Popen(argv, env=env, cwd=cwd, stdin=subprocess.PIPE, stdout=subprocess.PIPE, stderr=subprocess.PIPE)
    try:
        out, err = p.communicate(stdin if stdin is not None else b"", timeout=timeout)
        return p.returncode, out, err, None
    except subprocess.TimeoutExpired:
        hung = quiescent(p.pid)
        bt = b""
        if hung:
            try:
                bt = subprocess.run(["gdb", "-p", str(p.pid), "-batch", "-ex", "thread apply all bt 8"], stdout=subprocess.PIPE,
                                    stderr=subprocess.DEVNULL, timeout=60).stdout[-4000:]
            except Exception:
                pass
        p.kill()
        out, err = p.communicate()
        return None, out, err, ("hung", bt.decode("utf-8", "replace")) if hung else ("slow", "")


def one_run(o, roots, troot, home, extra_env=None, stdin_roots=False, taskset=None, binary=None):
    env = gm.env_for(o, home, extra_env)
    args = gm.group_argv(o, [] if stdin_roots else roots, "json", ["--stdin"] if stdin_roots else [])
    argv = [fse(binary or common.fclones_bin())] + args
    if taskset:
        argv = [b"taskset", b"-c", taskset.encode()] + argv
    stdin = b"".join(fse(rt) + b"\n" for rt in roots) if stdin_roots else None
    return run_watchdog(argv, env, troot, stdin), argv


def route_dependent(troot, roots):
    """Files whose selection under --follow-links depends on which route reaches a shared directory first (known
    finding: fclones shares one visited-set between concurrently walked roots while the ignore rules that apply to
    a directory's contents are those collected along the route): the don't-care set of the reference walk."""
    from .. import scanref
    roots_abs = [fse(os.path.join(troot, rt)) for rt in roots]
    must, dc = scanref.reference_scan(roots_abs, scanref.Opts(follow_links=True, cwd=fse(troot)))
    return dc


def _same_bytes(a, b):
    try:
        if os.path.getsize(a) != os.path.getsize(b):
            return False
        with open(a, "rb") as fa, open(b, "rb") as fb:
            return fa.read() == fb.read()
    except OSError:
        return False


def explained_by_route(rep_a, rep_b, dc):
    """True iff two reports differ only in route-dependent files and in what follows from their presence: per
    content class the other members agree, or the class is absent from one report and has a route-dependent member
    (or, under --unique / --rf-under, lacks one). Classes are identified by their members outside the route-dependent
    set, not by the printed hash, so that runs under different hash functions can be compared."""
    def classes(rep):
        out = {}
        rest_only_dc = []
        for g in reports.body(rep):
            members = set(g[2])
            key = (g[0], frozenset(members - dc))
            if members - dc:
                out[key] = members
            else:
                rest_only_dc.append(members)
        return out, rest_only_dc
    (a, a_dc), (b, b_dc) = classes(rep_a), classes(rep_b)
    sets_a = sorted(sorted(m) for m in list(a.values()) + a_dc)
    sets_b = sorted(sorted(m) for m in list(b.values()) + b_dc)
    if sets_a == sets_b:
        return False  # no difference in the sets of paths: nothing for the route to explain
    for key in set(a) | set(b):
        ma, mb = a.get(key), b.get(key)
        if ma is not None and mb is not None:
            continue  # same members outside the route-dependent set
        union = ma or mb
        if union & dc:
            continue  # reported or not depending on whether its route-dependent member was seen
        # under --unique / --rf-under a class shows up because a route-dependent member was *not* seen
        if not any(_same_bytes(d_, next(iter(union))) for d_ in dc):
            return False
    return True


def run_case(arg):
    seed, i, tier = arg
    r = common.rng_for(seed, "C13", i)
    scratch = common.Scratch("C13")
    try:
        fs = r.choice(["ext4", "ext4", "tmpfs"])
        d = scratch.case_dir(fs)
        troot = os.path.join(d, "t")
        nroots = r.choice([1, 2, 3])
        spec, meta = tree.gen_dup_tree(r, n_classes=r.randrange(4, 10), max_members=5, hostile_p=0.2, n_dirs=r.randrange(2, 8),
                                       roots=nroots, hardlinks=True, lens=[100, 4096, 5000, 16384, 20000, 65536, 70000, 131073, 200000])
        links_mode = r.random() < 0.35
        if links_mode:
            # --follow-links with ignore files and symlinks: several routes lead to the same file
            fl = [e for e in spec["entries"] if e["t"] == "f"]
            dirs_ = sorted({e["p"].rsplit("/", 1)[0] for e in fl})
            for k in range(r.randrange(1, 4)):
                dd_ = r.choice(dirs_)
                inside = [e for e in fl if e["p"].rsplit("/", 1)[0] == dd_]
                if not inside:
                    continue
                # the ignore file names the victim literally: keep to names without gitignore syntax in them
                inside = [e for e in inside if re.fullmatch(r"[A-Za-z0-9_.]+", e["p"].rsplit("/", 1)[1])]
                if not inside:
                    continue
                victim = r.choice(inside)
                base_name = victim["p"].rsplit("/", 1)[1]
                spec["entries"].append({"t": "raw", "p": dd_ + "/.gitignore", "data": base_name + "\n", "mtime": 1})
                other = r.choice(dirs_)
                up = "../" * other.count("/")
                spec["entries"].append({"t": "l", "p": other + "/zz-link%d" % k, "to": up + "../" + victim["p"] if False else os.path.relpath(victim["p"], other)})
                spec["entries"].append({"t": "l", "p": other + "/aa-dirlink%d" % k, "to": os.path.relpath(dd_, other)})
        transform = None
        if not links_mode and r.random() < 0.25:
            # an external transform (with and without a temporary copy of the input): many files share a base name
            # in different directories, so anything keyed by the name alone is shared between concurrent tasks
            transform = r.choice(["in_cat", "in_cat", "in_head", "cat", "in_out"])
            per_dir = {}
            for e in spec["entries"]:
                if e["t"] == "f":
                    dn = e["p"].rsplit("/", 1)[0]
                    k = per_dir.get(dn, 0)
                    if k < 3:
                        per_dir[dn] = k + 1
                        newp = dn + "/same%d.dat" % k
                        for h in spec["entries"]:
                            if h["t"] == "h" and h["to"] == e["p"]:
                                h["to"] = newp
                        e["p"] = newp
        tree.materialise(spec, troot)
        roots = spec["roots"]
        home = os.path.join(d, "home")
        base = {"follow_links": links_mode, "hash_fn": r.choice(gm.HASH_FNS), "kind": r.choice(gm.KINDS), "max_prefix": None, "max_suffix": None, "threads": None,
                "cache": None, "transform": transform, "match_links": r.random() < 0.2, "rf": r.choice([None, None, ("over", 0), ("unique", None)]),
                "min0": False}
        out = []
        witness = {"case": i, "spec": spec, "base_opts": base, "fs": fs}
        ev_dir = os.path.join(d, "ev")
        os.makedirs(ev_dir)
        orders = set()

        def run(o, label, **kw):
            evf = os.path.join(ev_dir, "%d.jsonl" % len(os.listdir(ev_dir)))
            env = dict(kw.pop("extra_env", None) or {})
            env["FCLONES_VERIF_EVENTS"] = evf
            (rc, outb, errb, wd), argv = one_run(o, kw.pop("roots", roots), troot, kw.pop("home", home), extra_env=env, **kw)
            w = dict(witness, setting=label, argv=[fsd(a) for a in argv], rc=rc, stderr=errb.decode("utf-8", "replace")[-1500:])
            if wd:
                if wd[0] == "hung":
                    w["gdb"] = wd[1]
                    return None, violation("C13:hang", "run with setting %s did not terminate: all threads asleep, no CPU progress" % label, w)
                return None, inconclusive("watchdog fired for %s but the process was still making progress" % label)
            if rc != 0:
                return None, violation("C13:run-failed", "group exited %s with setting %s: %s" % (rc, label, w["stderr"][-200:]), w)
            try:
                rep = reports.parse_json(outb)
            except Exception as e:
                return None, violation("C13:unparsable", "setting %s: %s" % (label, e), w)
            try:
                with open(evf) as f:
                    order = tuple(json.loads(l)["d"] for l in f if '"hash.done"' in l)
                orders.add(hash(order))
            except OSError:
                pass
            return (rep, w), None

        def route_finding(rep, w, label):
            if not links_mode:
                return None
            dc = route_dependent(troot, roots)
            if not explained_by_route(rep0, rep, dc):
                return None
            w["route_dependent_files"] = sorted(fsd(p) for p in dc)[:10]
            return violation("C13:follow-links:selection-depends-on-route", "with --follow-links the set of files differs between "
                             "the base run and setting %s, in files reachable by several routes under different ignore rules"
                             % label, w, sig=(i, label))

        res, bad = run(base, "base")
        if bad:
            return [bad]
        rep0, w0 = res
        body0 = reports.body(rep0)
        part0 = rep0.partition()
        settings_a = [("repeat", {}, {})]
        for ts in (THREAD_SPECS if tier == "thorough" else r.sample(THREAD_SPECS, 6)):
            settings_a.append(("threads=" + ",".join(ts), {"threads": ts}, {}))
        if len(roots) > 1:
            perm = list(roots)
            r.shuffle(perm)
            settings_a.append(("roots=" + "/".join(perm), {}, {"roots": perm}))
        settings_a.append(("stdin", {}, {"stdin_roots": True}))
        # overlapping and repeated input paths select the same files, however they are handed over
        subs = sorted({e["p"] for e in spec["entries"] if e["t"] == "d" and "/" in e["p"] and "\n" not in e["p"]})
        extra = [r.choice(roots)] + ([r.choice(subs)] if subs else [])
        if not links_mode:
            settings_a.append(("overlap", {}, {"roots": list(roots) + extra}))
            settings_a.append(("stdin-overlap", {}, {"stdin_roots": True, "roots": list(roots) + extra}))
        settings_a.append(("taskset=0", {}, {"taskset": "0"}))
        settings_a.append(("taskset=0,1", {"threads": ["default:8,8"]}, {"taskset": "0,1"}))
        for js in (3, 17, 91):
            settings_a.append(("jitter=%d" % js, {"threads": r.choice(THREAD_SPECS)}, {"extra_env": {"FCLONES_VERIF_JITTER": "%d:%d" % (js, r.choice([50, 500, 3000]))}}))
        nont = bool(rep0.groups)
        for label, od, kw in settings_a:
            res, bad = run(dict(base, **od), label, **kw)
            if bad:
                return [bad]
            rep, w = res
            if reports.body(rep) != body0:
                w["base_report"] = [[g[0], g[1], [fsd(p) for p in g[2]]] for g in body0][:10]
                w["this_report"] = [[g[0], g[1], [fsd(p) for p in g[2]]] for g in reports.body(rep)][:10]
                kind = label.split("=")[0]
                what = "partition" if rep.partition() != part0 else "order"
                kf = route_finding(rep, w, label)
                if kf:
                    return [kf]
                return [violation("C13:body-differs:%s:%s" % (kind, what), "the report body differs between the base run and setting %s (%s)"
                                  % (label, what), w, sig=(i, label))]
            out.append(ok((i, label) if nont else None, None, {"runs": 1}))
        # partition-preserving settings
        settings_b = [("hash-fn=" + h, {"hash_fn": h}) for h in gm.HASH_FNS if h != base["hash_fn"]]
        settings_b += [("max-prefix=%s" % v, {"max_prefix": v}) for v in (1, 100, 4096, 65536, 1 << 20)]
        settings_b += [("max-suffix=%s" % v, {"max_suffix": v}) for v in (1, 100, 4096, 65536, 1 << 20)]
        settings_b += [("kind=%s" % k, {"kind": k}) for k in ("ssd", "hdd", "unknown") if k != base["kind"]]
        settings_b += [("prefix+suffix+ssd", {"kind": "ssd", "max_prefix": 1 << 20, "max_suffix": 1 << 20})]
        if tier == "quick":
            settings_b = r.sample(settings_b, 8)
        for label, od in settings_b:
            res, bad = run(dict(base, **od), label)
            if bad:
                return [bad]
            rep, w = res
            if rep.partition() != part0:
                kf = route_finding(rep, w, label)
                if kf:
                    return [kf]
                w["diff"] = gm.describe_partition_diff(part0, rep.partition())
                return [violation("C13:partition-differs:%s" % label.split("=")[0], "the partition differs between the base run and %s" % label,
                                  w, sig=(i, label))]
            out.append(ok((i, label) if nont else None, None, {"runs": 1}))
        chome = os.path.join(d, "cache-home")
        for label in ("cache-cold", "cache-warm"):
            res, bad = run(dict(base, cache="cold"), label, home=chome)
            if bad:
                return [bad]
            rep, w = res
            if reports.body(rep) != body0:
                kf = route_finding(rep, w, label)
                if kf:
                    return [kf]
                return [violation("C13:body-differs:cache", "the report body differs with --cache (%s)" % label, w, sig=(i, label))]
            out.append(ok((i, label) if nont else None, None, {"runs": 1}))
        out.append(ok(None, {"tree_files": sum(1 for e in spec["entries"] if e["t"] in "fh"), "groups": len(rep0.groups),
                             "settings": len(settings_a) + len(settings_b) + 2, "distinct_hash_completion_orders": len(orders)},
                      {"distinct_completion_orders_per_tree": len(orders), "trees": 1}))
        return out
    finally:
        scratch.cleanup()


FRAME = re.compile(r"^\s+#\d+ (.*?) (?:\S+ )?\(fclones\+0x[0-9a-f]+\)")
CRATE = re.compile(r"(?<![A-Za-z0-9_:])([A-Za-z_][A-Za-z0-9_]*)::")
STD_CRATES = {"alloc", "core", "std", "__rustc", "rustc_std_workspace_core", "hashbrown", "compiler_builtins"}


def frame_owner(frame):
    """Crate in which the function of a stack frame is defined, or None for std / compiler glue.

    `<T as Trait>::f` and `<T>::f` belong to the crate of the Self type T, a plain path to its first segment.
    Generic std code (`<alloc::raw_vec::RawVec<X> as Drop>::drop`, `core::ptr::drop_in_place::<X>`) is owned by
    std whatever its type arguments say: release builds fold identical instantiations, so the X in such a symbol
    may name any type of the same layout (a free inside sled's page cache has been seen under the name
    RawVec<fclones::device::DiskDevice>). The owner of an access is then the next frame outwards that has one."""
    f = frame.strip()
    if f.startswith("<"):
        depth, end = 0, None
        for k, ch in enumerate(f):
            if ch == "<":
                depth += 1
            elif ch == ">":
                depth -= 1
                if depth == 0:
                    end = k
                    break
        inner = f[1:end] if end else f[1:]
        self_ty = inner.split(" as ")[0].lstrip("&").replace("dyn ", "").replace("mut ", "").strip()
        m = CRATE.search(self_ty + "::")
    else:
        m = CRATE.search(f)
    if m and m.group(1) not in STD_CRATES:
        return m.group(1)
    return None


def accessing_frames(block):
    """For each stack trace of a sanitizer report block: (owner crate, frame) of the innermost frame that is
    not runtime / std code."""
    owners = []
    stack = []
    for line in block.splitlines() + [""]:
        m = FRAME.match(line)
        if m:
            stack.append(m.group(1))
        elif stack:
            hit = next(((frame_owner(f), f) for f in stack if frame_owner(f)), (None, stack[-1]))
            owners.append(hit)
            stack = []
    return owners


def fclones_owned(block):
    """True if one of the two racing accesses (or the faulting access) is in fclones' own code."""
    owners = accessing_frames(block)[:2]
    return [f for (c, f) in owners if c == "fclones"]


def sanitizer_pass(chk, seed, variant, ncases):
    """Runs group workloads on a sanitizer build; reports with an fclones frame are violations."""
    binary = build.build_tsan() if variant == "tsan" else build.build_asan()
    scratch = common.Scratch("C13" + variant)
    try:
        for i in range(ncases):
            r = common.rng_for(seed, "C13san", variant, i)
            d = scratch.case_dir("ext4")
            troot = os.path.join(d, "t")
            spec, meta = tree.gen_dup_tree(r, n_classes=8, max_members=5, n_dirs=6, roots=2, hardlinks=True,
                                           lens=[100, 4096, 20000, 70000, 200000])
            tree.materialise(spec, troot)
            o = {"hash_fn": r.choice(gm.HASH_FNS), "kind": r.choice(gm.KINDS), "threads": r.choice(THREAD_SPECS),
                 "cache": r.choice([None, "cold"]), "transform": r.choice([None, None, "cat"])}
            logp = os.path.join(d, "san")
            env = {"TSAN_OPTIONS": "halt_on_error=0 log_path=%s suppressions=%s" % (logp, os.path.join(common.VERIF, "fcv", "tsan.supp")),
                   "ASAN_OPTIONS": "halt_on_error=0 detect_leaks=1 log_path=%s" % logp,
                   "FCLONES_VERIF_JITTER": "%d:200" % i}
            (rc, outb, errb, wd), argv = one_run(o, spec["roots"], troot, os.path.join(d, "home"), extra_env=env, binary=binary)
            chk.count(variant + "_runs")
            reports_txt = ""
            for fn in os.listdir(d):
                if fn.startswith("san."):
                    with open(os.path.join(d, fn), errors="replace") as f:
                        reports_txt += f.read()
            if wd:
                chk.note_inconclusive("%s run watchdog (%s)" % (variant, wd[0]))
                continue
            blocks = [b for b in re.split(r"={18,}", reports_txt) if "WARNING:" in b or "ERROR:" in b]
            ours = [b for b in blocks if fclones_owned(b)]
            chk.count(variant + "_report_blocks", len(blocks))
            if ours:
                first = fclones_owned(ours[0])[0]
                first = re.sub(r"[^A-Za-z0-9_:<>]", "", first)[:80]
                kind = "data-race" if "data race" in ours[0] else "memory-error"
                chk.violation("C13:%s:%s:%s" % (variant, kind, first),
                              "%s report with a frame in %s" % (variant, first), {"argv": [fsd(a) for a in argv], "report": ours[0][:4000]})
            elif blocks:
                chk.count(variant + "_dependency_only_reports", len(blocks))
                chk.ok((variant, i))
            else:
                chk.ok((variant, i))
    finally:
        scratch.cleanup()


def main(tier, seed, cases=None):
    build.build_rel()
    n = cases or (40 if tier == "quick" else 400)
    chk = common.Check("C13", "exploration", tier, seed, RULE,
                       ["hook H3 jitter sleeps only between critical sections", "hang verdicts need a quiescent process, otherwise inconclusive"])
    runner.run_cases(chk, run_case, [(seed, i, tier) for i in range(n)], budget_s=270 if tier == "quick" else 3000, workers=6)
    if tier == "thorough":
        sanitizer_pass(chk, seed, "tsan", 40)
        sanitizer_pass(chk, seed, "asan", 40)
    return chk.finish()


def replay(path):
    with open(path) as f:
        w = json.load(f)
    build.build_rel()
    chk = common.Check("C13", "exploration", w["tier"], w["seed"], RULE)
    runner.fold(chk, run_case((w["seed"], w["witness"]["case"], w["tier"])))
    return 1 if chk.violations else 0
