"""C11 - the dry-run script is exactly what a real run does."""
import json
import os
import re
import shutil
import subprocess

from .. import build, common, dd, inventory, reports, runner, shimlog
from ..common import fsd, fse
from ..runner import ok, violation, inconclusive
from . import ddcase

RULE = ("generated trees with shell-hostile / non-UTF-8 names x all five operations x random dedupe options: (1) `op --dry-run` "
        "gives script S and a summary; (2) the real `op` runs under the LD_PRELOAD log; (3) the tree is restored from a "
        "`cp -a` backup and, for remove / link / link --soft, S is executed by bash. Oracles: the operations bash decodes "
        "from S equal (as a multiset, and in report-group order) the operations reconstructed from the syscall log of the "
        "real run; the summaries (N files, bytes) are equal; the tree after `bash S` equals the tree after the real run "
        "(paths, types, bytes, link targets, hard-link partition, no temp leftovers); S is identical (modulo random temp "
        "names) under RAYON_NUM_THREADS 1/2/16 with hook jitter. non-trivial = run whose script has >=1 operation")


def run_case(arg):
    seed, i, tier = arg
    r = common.rng_for(seed, "C11", i)
    sc = ddcase.gen_scenario(r, hostile_p=0.6, allow_symlinks=False)
    if r.random() < 0.15:
        # a report made with --transform: the members of a group agree after the transform only, their sizes on disk
        # differ (the dedupe commands then run without the length check)
        sc["group"]["transform"] = "head100"
        head = r.randbytes(100)
        rt = sc["spec"]["roots"][0]
        for k, extra in enumerate(r.sample([0, 20, 300, 800, 5000], r.randrange(2, 5))):
            sc["spec"]["entries"].append({"t": "raw", "p": "%s/sized-%d" % (rt, k), "data": fsd(head + r.randbytes(extra)), "mtime": 900 + k})
    scratch = common.Scratch("C11")
    try:
        return _run(sc, r, scratch, i)
    finally:
        scratch.cleanup()


def _np(p):
    # the shim log is lexically normalised (fclones builds move targets as DIR/./abs/path)
    return os.path.normpath(p) if p and p.startswith(b"/") else (p or b"")


def norm_ops(ops):
    return sorted((k, _np(p), _np(t) if k != "softlink" else (t or b"")) for k, p, t in ops)


def tree_shape(inv, root):
    """Inventory reduced to what must agree between two copies of a tree (no inode numbers, no dir mtimes)."""
    rb = fse(root).rstrip(b"/") + b"/"
    out = {}
    for p, rec in inv.items():
        rel = p[len(rb):] if p.startswith(rb) else p
        if rec["type"] == "f":
            out[rel] = ("f", rec["sha"], rec["size"])
        elif rec["type"] == "l":
            out[rel] = ("l", rec["target"].replace(rb, b"@ROOT@/"))
        else:
            out[rel] = (rec["type"],)
    part = frozenset(frozenset(q[len(rb):] for q in s) for s in inventory.hardlink_partition(inv) if len(s) > 1)
    return out, part


def _run(sc, r, scratch, i):
    d = scratch.case_dir("ext4")
    home = os.path.join(d, "home")
    troot, roots_abs = ddcase.materialise(sc, d, scratch)
    op, cfg = sc["op"], sc["cfg"]
    backup = os.path.join(d, "backup")
    subprocess.run(["cp", "-a", troot, backup], check=True)
    amb = common.ambient_env(r, elsewhere=d)
    res, gargv = ddcase.run_group_for(sc, troot, home, extra_env=amb)
    if res.timed_out or res.rc != 0:
        return [inconclusive("group failed/timed out")]
    report = res.out
    rep = reports.parse(report, sc["fmt"])
    gidx = {}
    for k, g in enumerate(rep.groups):
        for p in g["files"]:
            gidx.setdefault(p, k)
    target = os.path.join(d, "moved") if op == "move" else None
    witness = {"case": i, "scenario": {k: sc[k] for k in ("group", "fmt", "op", "cfg")}, "spec": sc["spec"],
               "report": report.decode("utf-8", "replace")[:4000]}
    # (1) dry run under three schedules
    scripts = []
    for threads, jit in ((1, None), (2, "7:300"), (16, "11:800")):
        dcfg = dict(cfg, dry_run=True)
        env = dict(amb, **({"FCLONES_VERIF_JITTER": jit} if jit else {}))
        dres, dargv = dd.run_dedupe(op, dcfg, report, troot, home, target=target, extra_env=env, threads=threads)
        if dres.timed_out:
            return [inconclusive("dry run timed out")]
        if dres.rc != 0 or "panicked" in dres.err_text():
            witness.update({"argv": [fsd(a) for a in dargv], "stderr": dres.err_text()[-1500:]})
            return [violation("C11:dry-run-died", "dry run exited %s: %s" % (dres.rc, dres.err_text()[-200:]), witness)]
        scripts.append((dres.out, dd.summary(dres.err_text()), dargv))
    script, dsum, dargv = scripts[0]
    witness.update({"dry_argv": [fsd(a) for a in dargv], "script": script.decode("utf-8", "replace")[:4000]})
    canon = [re.sub(rb"\.[A-Za-z0-9]{24}", b".TEMP", s[0]) for s in scripts]
    canon_cmp = canon
    if sc.get("mounted") and op in ("link", "dedupe"):
        # a group that spans two file systems is split by device, and the order of the parts within the group is not
        # promised (the property fixes the order of the groups only, which oracle (2) checks): compare as multisets of lines
        canon_cmp = [b"\n".join(sorted(c.split(b"\n"))) for c in canon]
    if len(set(canon_cmp)) != 1:
        witness["scripts"] = [c.decode("utf-8", "replace")[:1500] for c in canon]
        return [violation("C11:script-depends-on-schedule", "the dry-run script differs between thread-pool sizes", witness)]
    if r.random() < 0.3:
        # the script goes to a file (-o) that exists already and holds an older, longer plan
        outp = os.path.join(d, "plan.sh")
        with open(outp, "wb") as f:
            f.write(script + b"rm -- '/old/plan/leftover-1'\nrm -- '/old/plan/leftover-2'\n")
        dres, dargv2 = dd.run_dedupe(op, dict(cfg, dry_run=True, output=outp), report, troot, home, target=target, extra_env=amb, threads=1)
        with open(outp, "rb") as f:
            filed = f.read()
        filed_c = re.sub(rb"\.[A-Za-z0-9]{24}", b".TEMP", filed)
        if canon_cmp is not canon:
            filed_c = b"\n".join(sorted(filed_c.split(b"\n")))
        if dres.rc != 0 or filed_c != canon_cmp[0]:
            witness.update({"argv": [fsd(a) for a in dargv2], "file": filed.decode("utf-8", "replace")[:3000], "rc": dres.rc,
                            "stderr": dres.err_text()[-500:]})
            return [violation("C11:%s:script-file-differs-from-stdout" % op,
                              "the script written with -o to a file that existed before differs from the one printed to stdout", witness)]
    try:
        cmds, brc, berr = dd.decode_script(script, os.path.join(d, "bash"))
    except Exception as e:
        return [violation("C11:script-not-decodable-by-bash", "bash could not decode the script: %s" % str(e)[:300], witness)]
    if brc != 0:
        witness["bash_stderr"] = berr.decode("utf-8", "replace")[-500:]
        return [violation("C11:script-has-bash-errors", "bash reported errors while reading the script", witness)]
    try:
        sops = dd.script_ops(cmds)
    except Exception as e:
        witness["cmds"] = [[fsd(w) for w in c] for c in cmds[:20]]
        return [violation("C11:script-shape-unexpected", "unexpected command sequence in the script: %s" % str(e)[:300], witness)]
    # groups in report order
    order = [gidx.get(o[1], -1) for o in sops]
    if any(x < 0 for x in order):
        bad = [fsd(o[1]) for o in sops if o[1] not in gidx]
        witness["unlisted"] = bad[:5]
        return [violation("C11:script-names-unlisted-path", "the script names paths that are not in the report: %s" % bad[:2], witness)]
    if order != sorted(order):
        return [violation("C11:script-not-in-report-order", "script operations are not in report-group order: %s" % order[:30], witness)]

    # (2) real run under the shim
    if target:
        pass
    log = os.path.join(d, "shim.log")
    env = shimlog.shim_env(log, [troot] + ([target] if target else []), ficlone=(op == "dedupe"))
    rres, rargv = dd.run_dedupe(op, cfg, report, troot, home, target=target, extra_env=env)
    witness.update({"real_argv": [fsd(a) for a in rargv], "real_rc": rres.rc, "real_stderr": rres.err_text()[-1500:]})
    if rres.timed_out:
        return [inconclusive("real run timed out")]
    if rres.rc != 0 or "panicked" in rres.err_text():
        return [violation("C11:real-run-died", "real run exited %s: %s" % (rres.rc, rres.err_text()[-200:]), witness)]
    ev, fired, junk = shimlog.parse(log)
    lops = dd.log_ops(ev, op)
    if op == "move":
        # rename-based moves log one rename; copy-based ones log unlink(source) after the copy
        real = [("move", o[1], o[2]) for o in lops if o[0] == "move"]
        copied = [o[1] for o in lops if o[0] == "move-unlink"]
        tmap = {o[1]: o[2] for o in sops}
        real += [("move", p, tmap.get(p)) for p in copied]
    elif op == "remove":
        real = [o for o in lops if not dd.TEMP_SUFFIX.search(o[1])]
    else:
        real = lops
    if norm_ops(real) != norm_ops(sops):
        a, b = set(norm_ops(sops)), set(norm_ops(real))
        witness["only_in_script"] = [[fsd(x) for x in o] for o in sorted(a - b)[:6]]
        witness["only_in_real_run"] = [[fsd(x) for x in o] for o in sorted(b - a)[:6]]
        return [violation("C11:%s:script-differs-from-real-run" % op,
                          "`%s`: %d operations only in the script, %d only in the real run" % (op, len(a - b), len(b - a)), witness)]
    rsum = dd.summary(rres.err_text())
    if dsum is None or rsum is None or dsum != rsum:
        witness["summaries"] = {"dry": dsum, "real": rsum}
        return [violation("C11:%s:summary-differs" % op, "dry-run summary %s, real-run summary %s" % (dsum, rsum), witness)]
    counts = {"ops_compared": len(sops), "ops": [op], "trees_on_two_file_systems": 1 if sc.get("mounted") else 0}
    # (3) execute the script with bash on a restored tree
    if op in ("remove", "link", "softlink"):
        inv1 = inventory.take(troot)
        t1 = tree_shape(inv1, troot)
        if sc.get("mounted"):
            # the second root is a mount point: empty it instead of removing it, then copy the backup over the skeleton
            for name in os.listdir(fse(troot)):
                p_ = os.path.join(fse(troot), name)
                if os.path.ismount(p_):
                    for inner in os.listdir(p_):
                        q_ = os.path.join(p_, inner)
                        common.rmtree(q_) if os.path.isdir(q_) and not os.path.islink(q_) else os.unlink(q_)
                elif os.path.isdir(p_) and not os.path.islink(p_):
                    common.rmtree(p_)
                else:
                    os.unlink(p_)
            subprocess.run(["cp", "-a", backup + "/.", troot + "/"], check=True)
        else:
            common.rmtree(troot)
            subprocess.run(["cp", "-a", backup, troot], check=True)
        env = {"PATH": "/usr/bin:/bin", "HOME": "/nonexistent-fcv", "LC_ALL": "C"}
        p = subprocess.run(["/bin/bash", "--norc", "--noprofile", "-s"], input=script, env=env, cwd=troot,
                           stdout=subprocess.PIPE, stderr=subprocess.PIPE, timeout=120)
        inv2 = inventory.take(troot)
        t2 = tree_shape(inv2, troot)
        if p.returncode != 0 or p.stderr:
            witness["bash_exec_stderr"] = p.stderr.decode("utf-8", "replace")[-800:]
            return [violation("C11:%s:script-fails-under-bash" % op, "executing the script with bash failed: %s"
                              % witness["bash_exec_stderr"][-200:], witness)]
        if t1 != t2:
            only1 = {k: v for k, v in t1[0].items() if t2[0].get(k) != v}
            only2 = {k: v for k, v in t2[0].items() if t1[0].get(k) != v}
            witness["tree_diff"] = {"real_run": {fsd(k): repr(v)[:100] for k, v in list(only1.items())[:6]},
                                    "bash_script": {fsd(k): repr(v)[:100] for k, v in list(only2.items())[:6]},
                                    "hardlink_partitions_equal": t1[1] == t2[1]}
            return [violation("C11:%s:bash-script-yields-different-tree" % op,
                              "tree after `bash script` differs from the tree after the real run", witness)]
        left = [p_ for p_ in inv1 if inventory.is_temp_sibling(p_)] + [p_ for p_ in inv2 if inventory.is_temp_sibling(p_)]
        if left:
            return [violation("C11:%s:temp-file-left" % op, "temporary sibling left behind: %s" % fsd(left[0]), witness)]
        counts["bash_executions"] = 1
    sig = (op, sc["fmt"], tuple(sorted(cfg)), len(sops), tuple(sorted(len(g["files"]) for g in rep.groups))) if sops else None
    return [ok(sig, {"op": op, "cfg": cfg, "script_ops": len(sops)}, counts)]


def main(tier, seed, cases=None):
    build.build_rel()
    build.build_shim()
    n = cases or (250 if tier == "quick" else 4000)
    chk = common.Check("C11", "exploration", tier, seed, RULE,
                       ["bash 5 decodes and executes the script", "FICLONE emulated by the shim for `dedupe`",
                        "`move` and `dedupe` scripts are compared with the real run but not executed"])
    runner.run_cases(chk, run_case, [(seed, i, tier) for i in range(n)], budget_s=240 if tier == "quick" else 3000)
    return chk.finish()


def replay(path):
    with open(path) as f:
        w = json.load(f)
    build.build_rel()
    build.build_shim()
    chk = common.Check("C11", "exploration", w["tier"], w["seed"], RULE)
    runner.fold(chk, run_case((w["seed"], w["witness"]["case"], w["tier"])))
    return 1 if chk.violations else 0
