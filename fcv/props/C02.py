"""C02 - deduplication never destroys the last copy of any content."""
import json
import os
import re

from .. import build, common, dd, inventory, reports, runner, shimlog, tree
from ..common import fsd, fse
from ..runner import ok, violation, inconclusive
from . import ddcase

RULE = ("real two-process pipelines `fclones group > R; fclones <op> < R` on generated trees (many groups, hard-link "
        "sets, symlinks with -S, --isolate roots, hostile file names, text and JSON reports, all five operations, "
        "--rf-over/-n, --priority, name/path/keep patterns, -H); `dedupe` runs natively (EOPNOTSUPP) and with the "
        "shim's FICLONE emulation; oracle = before/after inventories (no digest lost from regular files, >= max(1,n) "
        "replicas of each group untouched, nothing outside the groups changed, linked paths read back the same "
        "bytes, moved bytes readable under DIR). non-trivial = a run in which at least one file was dropped; "
        "distinct = distinct (op, option names, tree shape)")


def run_case(arg):
    seed, i, tier = arg
    r = common.rng_for(seed, "C02", i)
    sc = ddcase.gen_scenario(r)
    if r.random() < 0.1:
        # file names at the NAME_MAX boundary: 255 bytes (no temporary sibling name can be formed), 231, 230
        fl = [e["p"] for e in sc["spec"]["entries"] if e["t"] == "f"]
        for old, L in zip(r.sample(fl, min(len(fl), 3)), (255, 231, 230)):
            dn = old.rsplit("/", 1)[0]
            tree.rename_entry(sc["spec"], sc["meta"], old, dn + "/" + "Z" * (L - 1) + "0123456789"[fl.index(old) % 10])
    scratch = common.Scratch("C02")
    try:
        return _run(sc, r, scratch, i)
    finally:
        scratch.cleanup()


def _sig(sc):
    g, cfg = sc["group"], sc["cfg"]
    parts = []
    if g.get("isolate"):
        parts.append("isolate")
    if g.get("symbolic_links"):
        parts.append("symbolic-links")
    if g.get("match_links") or cfg.get("match_links"):
        parts.append("match-links")
    return "+".join(parts) or "plain"


def _run(sc, r, scratch, i):
    d = scratch.case_dir("ext4")
    home = os.path.join(d, "home")
    troot, roots_abs = ddcase.materialise(sc, d)
    op, cfg, g = sc["op"], sc["cfg"], sc["group"]
    if (g.get("match_links") or cfg.get("match_links")) and g.get("symbolic_links"):
        return []  # documented-dangerous combination, excluded by the property
    amb = common.ambient_env(r, elsewhere=d)
    res, gargv = ddcase.run_group_for(sc, troot, home, extra_env=amb)
    witness = {"case": i, "scenario": {k: sc[k] for k in ("group", "fmt", "op", "cfg")}, "spec": sc["spec"],
               "group_argv": [fsd(a) for a in gargv], "group_rc": res.rc, "group_stderr": res.err_text()[-1500:]}
    if res.timed_out:
        return [inconclusive("group timed out")]
    if res.rc != 0:
        return [inconclusive("group failed: " + res.err_text()[-200:])]
    report = res.out
    try:
        rep = reports.parse(report, sc["fmt"])
    except Exception as e:
        return [inconclusive("own parser rejected the report: %s" % e)]
    target = None
    scan_dirs = [troot]
    if op == "move":
        where = r.choice(["outside", "outside", "inside", "tmpfs"])
        if where == "outside":
            target = os.path.join(d, "moved")
        elif where == "inside":
            target = os.path.join(troot, sc["spec"]["roots"][0], "moved-here")
        else:
            target = os.path.join(scratch.case_dir("tmpfs"), "moved")
        if where != "inside":
            scan_dirs.append(target)
        os.makedirs(target, exist_ok=True)
        if r.random() < 0.5 and rep.groups:
            # something already lives where a moved file would go (e.g. an earlier move into the same directory)
            for victim in r.sample([p for g_ in rep.groups for p in g_["files"]], min(3, sum(len(g_["files"]) for g_ in rep.groups))):
                tp = fse(target) + victim
                try:
                    os.makedirs(os.path.dirname(tp), exist_ok=True)
                    if not os.path.lexists(tp):
                        with open(tp, "wb") as f:
                            f.write(b"earlier content kept in the target directory " + os.urandom(8))
                except OSError:
                    pass
    emulate = op == "dedupe" and r.random() < 0.7
    before = {}
    for sd in scan_dirs:
        before.update(inventory.take(sd))
    log = os.path.join(d, "shim.log")
    env = shimlog.shim_env(log, [troot] + ([target] if target else []), ficlone=emulate)
    env.update(amb)
    # the dedupe command need not run where `group` ran (the report carries absolute paths and its base directory)
    dcwd = r.choice([troot, troot, d, "/"])
    dres, dargv = dd.run_dedupe(op, cfg, report, dcwd, home, target=target, extra_env=env)
    after = {}
    for sd in scan_dirs:
        after.update(inventory.take(sd))
    witness.update({"dedupe_cwd": dcwd, "dedupe_argv": [fsd(a) for a in dargv], "dedupe_rc": dres.rc, "dedupe_stderr": dres.err_text()[-2500:],
                    "report": report.decode("utf-8", "replace")[:6000], "emulate_ficlone": emulate, "target": target})
    if dres.timed_out:
        return [inconclusive("dedupe timed out")]
    sp = _sig(sc)
    if dres.rc is not None and dres.rc < 0 or "panicked" in dres.err_text():
        return [violation("C02:%s:dedupe-crashed" % sp, "dedupe command died: rc=%s %s" % (dres.rc, dres.err_text()[-300:]),
                          witness)]

    removed, added, changed = inventory.diff(before, after)
    group_paths = {p for gr in rep.groups for p in gr["files"]}
    eff = ddcase.effective(sc, roots_abs)
    n = max(1, eff["n"])

    # (1) no content lost from regular files
    lost = inventory.digests(before) - inventory.digests(after)
    if lost:
        victims = [p for p, rec in before.items() if rec["type"] == "f" and rec["sha"] in lost]
        witness["lost"] = {"digests": sorted(lost), "held_by": victims}
        kind = "content-lost"
        if g.get("isolate") and g.get("symbolic_links"):
            kind = "symlink-retained-target-dropped"
        elif any(v not in group_paths for v in victims):
            kind = "unreported-file-destroyed"
        return [violation("C02:%s:%s" % (sp, kind), "content held only by %s is in no regular file after `%s`"
                          % ([fsd(v) for v in victims[:3]], op), witness, sig=(sp, "lost"))]

    # (3) nothing outside the reported groups was modified (directories may gain/lose entries)
    def outside(p):
        return p not in group_paths and before.get(p, after.get(p))["type"] != "d"
    bad = [p for p in removed + changed if outside(p)]
    tdir = fse(target) if target else None
    bad += [p for p in added if outside(p) and not (tdir and dd.under(tdir, p)) and after[p]["type"] != "d"]
    if bad:
        witness["outside_changes"] = [fsd(p) for p in bad[:10]]
        return [violation("C02:%s:file-outside-groups-modified" % sp,
                          "entries outside the reported groups changed: %s" % [fsd(p) for p in bad[:3]], witness,
                          sig=(sp, "outside"))]

    # (2) enough replicas of every group untouched
    dropped_any = False
    for gr in rep.groups:
        reps = {}
        for p in gr["files"]:
            b = before.get(p)
            if b is None:
                continue
            if eff["match_links"]:
                key = ("p", p)
            else:
                key = ("i", _follow_id(before, p))
            if eff["isolate"]:
                idx = next((k for k, rt in enumerate(eff["isolate"]) if dd.under(rt, p)), None)
                if idx is not None:
                    key = ("r", idx)
            reps.setdefault(key, []).append(p)
        untouched = 0
        for key, paths in reps.items():
            if all(p in after and inventory.same_entry(before[p], after[p]) for p in paths):
                untouched += 1
            else:
                dropped_any = True
        need = min(n, len(reps))
        if untouched < need:
            witness["group"] = {"files": [fsd(p) for p in gr["files"]], "replicas": len(reps), "untouched": untouched,
                                "need": need}
            return [violation("C02:%s:too-few-replicas-untouched" % sp,
                              "group of %d replicas: only %d untouched, %d required (n=%d)" % (len(reps), untouched, need, n),
                              witness, sig=(sp, "replicas"))]

    # (4) link / dedupe: every original path still reads back the same bytes
    if op in ("link", "softlink", "dedupe"):
        for p in group_paths:
            b = before.get(p)
            if b is None:
                continue
            want = _follow_sha(before, p)
            try:
                got = inventory.sha(p)
            except OSError as e:
                got = "unreadable: %s" % e
            if want is not None and got != want:
                witness["path"] = fsd(p)
                kind = "original-path-content-changed"
                if g.get("isolate") and g.get("symbolic_links") and got.startswith("unreadable"):
                    kind = "dropped-path-became-unreadable-link"
                elif op == "link" and g.get("symbolic_links") and b["type"] == "f" and os.path.islink(p) and os.lstat(p).st_nlink > 1:
                    # D39: the retained replica's first path is a symbolic link; `link` made a hard link to the link itself,
                    # and a relative one points somewhere else from its new directory
                    kind = "dropped-path-became-hard-link-of-a-symlink"
                return [violation("C02:%s:%s" % (sp, kind),
                                  "%s no longer reads back its bytes after `%s` (%s)" % (fsd(p), op, got), witness,
                                  sig=(sp, "readback"))]
    if op == "dedupe" and not emulate and (removed or added or changed):
        witness["diff"] = {"removed": removed, "added": added, "changed": changed}
        return [violation("C02:%s:unsupported-reflink-changed-tree" % sp,
                          "FICLONE is unsupported here, yet the tree changed", witness)]
    counts = {"files_dropped": len(removed) + len(changed), "groups": len(rep.groups),
              "ops": [op], "hostile_paths": sum(1 for p in group_paths if not re.fullmatch(rb"[A-Za-z0-9_./-]+", p))}
    if op == "dedupe" and emulate:
        ev, fired, junk = shimlog.parse(log)
        cl = [e for e in ev if e.op == "ficlone" and e.ret == 0 and not dd.TEMP_SUFFIX.search(e.p1)]
        counts["reflinks_done"] = len(cl)
        dropped_any = dropped_any or bool(cl)
    sig = (sp, op, sc["fmt"], tuple(sorted(sc["cfg"])), tuple(sorted((c["len"], len(c["members"])) for c in sc["meta"]["classes"]))) \
        if dropped_any else None
    sample = {"op": op, "cfg": cfg, "group_opts": {k: v for k, v in g.items() if v}, "fmt": sc["fmt"],
              "groups": len(rep.groups), "removed": len(removed), "changed": len(changed), "added": len(added)}
    return [ok(sig, sample, counts)]


def _follow_id(inv, p):
    rec = inv[p]
    if rec["type"] == "l":
        return rec["tid"] or ("dangling", p)
    return (rec["dev"], rec["ino"])


def _follow_sha(inv, p):
    rec = inv[p]
    if rec["type"] == "f":
        return rec["sha"]
    if rec["type"] == "l":
        return rec["tsha"]
    return None


def main(tier, seed, cases=None):
    build.build_rel()
    build.build_shim()
    n = cases or (800 if tier == "quick" else 15000)
    chk = common.Check("C02", "exploration", tier, seed, RULE,
                       ["SHA-256 inventories", "FICLONE emulated by the shim as a whole-file copy"])
    runner.run_cases(chk, run_case, [(seed, i, tier) for i in range(n)], budget_s=200 if tier == "quick" else 3000)
    return chk.finish()


def replay(path):
    with open(path) as f:
        w = json.load(f)
    build.build_rel()
    build.build_shim()
    chk = common.Check("C02", "exploration", w["tier"], w["seed"], RULE)
    runner.fold(chk, run_case((w["seed"], w["witness"]["case"], w["tier"])))
    return 1 if chk.violations else 0
