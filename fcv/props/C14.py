"""C14 - a report is internally consistent in every output format."""
import json
import os

from .. import build, common, gm, reports, runner, tree
from ..common import fsd, fse
from ..runner import ok, violation, inconclusive
from . import C06

RULE = ("link-rich multi-root trees x group configurations (duplicates, --rf-over k, --unique, --rf-under k, --isolate, -H, -S, "
        "transform) x the four formats (default, json, csv, fdupes) on stdout and with -o file. Oracles on independently "
        "parsed outputs: header / JSON stats equal the values recomputed from the body with the documented definitions; "
        "each group header count equals its number of path lines; groups in non-increasing file size; paths absolute; under "
        "--isolate the paths of one root are contiguous and roots appear in the order given; the four formats describe the "
        "same list of groups; -o file equals stdout; the body is identical under different thread settings, root order "
        "(without --isolate) and file creation order. non-trivial = run with >=1 group; distinct = (tree shape, options)")


def recompute(rep, o, roots_abs):
    mode, k = gm.rf_params(o)
    gcount = len(rep.groups)
    tcount = sum(len(g["files"]) for g in rep.groups)
    tsize = sum(g["len"] * len(g["files"]) for g in rep.groups)
    red_c = red_s = mis_c = mis_s = 0
    for g in rep.groups:
        files = g["files"]
        if mode == "over":
            rr = max(k, 1)
            if o.get("isolate"):
                per_root = []
                for rt in roots_abs:
                    n = sum(1 for p in files if p.startswith(rt + b"/"))
                    if n:
                        per_root.append(n)
                # paths below no root come last; each is a replica of its own (one per file unless -H)
                rootless = [p for p in files if not any(p.startswith(rt + b"/") for rt in roots_abs)]
                if o.get("match_links"):
                    per_root += [1] * len(rootless)
                else:
                    by_id = {}
                    for p in rootless:
                        st = os.stat(p)
                        by_id.setdefault((st.st_dev, st.st_ino), []).append(p)
                    per_root += [len(v) for v in by_id.values()]
                c = sum(per_root[rr:])
            else:
                c = max(0, len(files) - rr)
            red_c += c
            red_s += c * g["len"]
        else:
            ids = []
            for p in files:
                st = os.stat(p)
                ids.append((st.st_dev, st.st_ino))
            members = list(zip(files, ids))
            c = max(0, k - gm.replica_count(members, o, roots_abs))
            mis_c += c
            mis_s += c * g["len"]
    return {"group_count": gcount, "total_file_count": tcount, "total_file_size": tsize, "redundant_file_count": red_c,
            "redundant_file_size": red_s, "missing_file_count": mis_c, "missing_file_size": mis_s}


def run_case(arg):
    seed, i, tier = arg
    r = common.rng_for(seed, "C14", i)
    spec, sym = C06.gen(r, i + 1)
    if r.random() < 0.5:
        # hostile file names (CSV quoting, fdupes lines, STFU-8 escapes)
        ren = {}
        for e in spec["entries"]:
            if e["t"] in "fhl" and r.random() < 0.5:
                dn, bn = e["p"].rsplit("/", 1)
                ren[e["p"]] = dn + "/" + r.choice(tree.HOSTILE + ["a,b", 'q"uo,te', "x\r\ny"]) + bn
        for e in spec["entries"]:
            if e.get("to") in ren:
                e["to"] = ren[e["to"]]
            elif e["t"] == "l" and e["to"].startswith("@ABS@/") and e["to"][6:] in ren:
                e["to"] = "@ABS@/" + ren[e["to"][6:]]
            if e["p"] in ren:
                e["p"] = ren[e["p"]]
    scratch = common.Scratch("C14")
    try:
        d = scratch.case_dir("ext4")
        troot = os.path.join(d, "t")
        for e in spec["entries"]:
            if e["t"] == "l" and e["to"].startswith("@ABS@/"):
                e["to"] = "../" * e["p"].count("/") + e["to"][6:]  # relative target: valid in both copies of the tree
        tree.materialise(spec, troot)
        roots = spec["roots"]
        roots_abs = [fse(os.path.join(troot, rt)) for rt in roots]
        home = os.path.join(d, "home")
        o = C06.sample_opts(r, len(roots), sym)
        if o.get("isolate") and len(roots) > 1 and r.random() < 0.6:
            # the roots in another order than their names sort: "roots in the order given" is about the command line
            order = list(range(len(roots)))
            r.shuffle(order)
            roots = [roots[k] for k in order]
            roots_abs = [roots_abs[k] for k in order]
        if o.get("isolate") and o.get("symbolic_links") and os.path.isdir(os.path.join(troot, "y")) and r.random() < 0.6:
            # one more input path: a symbolic link to a file outside the other roots (reported under the link's name,
            # below no --isolate root: a replica of its own)
            src = next((e for e in spec["entries"] if e["t"] == "f"), None)
            if src:
                with open(os.path.join(troot, "y", "extra-target"), "wb") as f:
                    f.write(tree.content(src["fam"], src["len"], src.get("flip", ())))
                os.symlink("extra-target", os.path.join(troot, "y", "extra-link"))
                roots = list(roots) + ["y/extra-link"]
                roots_abs = roots_abs + [fse(os.path.join(troot, "y", "extra-link"))]
        sig0 = "+".join(k for k in ("isolate", "match_links", "symbolic_links", "transform") if o.get(k)) or "plain"
        sig0 += ":" + (o["rf"][0] if o["rf"] else "default")
        outs = {}
        amb = common.ambient_env(r, elsewhere=d)
        for fmt in ("default", "json", "csv", "fdupes"):
            res, argv = gm.run_group(o, roots, troot, home, fmt=fmt, extra_env=amb)
            w = {"case": i, "opts": o, "spec": spec, "fmt": fmt, "argv": [fsd(a) for a in argv], "rc": res.rc, "stderr": res.err_text()[-1200:],
                 "stdout": res.out.decode("utf-8", "replace")[:3000]}
            if res.timed_out:
                return [inconclusive("group timed out")]
            if res.rc != 0:
                return [violation("C14:%s:group-failed" % sig0, "group -f %s failed: %s" % (fmt, res.err_text()[-200:]), w)]
            try:
                outs[fmt] = (reports.parse(res.out, fmt), res.out, w)
            except Exception as e:
                return [violation("C14:%s:%s:unparsable" % (sig0, fmt), "output not parsable as %s: %s" % (fmt, e), w)]
        rep_t, raw_t, w_t = outs["default"]
        rep_j, raw_j, w_j = outs["json"]
        rep_c = outs["csv"][0]
        rep_f = outs["fdupes"][0]
        # same list of groups in every format
        bt = reports.body(rep_t)
        if reports.body(rep_j) != bt:
            return [violation("C14:%s:text-json-differ" % sig0, "text and JSON reports list different groups", w_j)]
        if [(g["len"], g["hash"], tuple(g["files"])) for g in rep_c.groups] != bt:
            return [violation("C14:%s:csv-differs" % sig0, "CSV output lists different groups than the text report", outs["csv"][2])]
        if [tuple(g["files"]) for g in rep_f.groups] != [b[2] for b in bt]:
            return [violation("C14:%s:fdupes-differs" % sig0, "fdupes output lists different groups than the text report", outs["fdupes"][2])]
        # counts
        for g in rep_t.groups:
            if g["count"] != len(g["files"]):
                return [violation("C14:%s:group-header-count" % sig0, "group header says %d files, %d listed" % (g["count"], len(g["files"])), w_t)]
        for g in rep_c.groups:
            if g["count"] != len(g["files"]):
                return [violation("C14:%s:csv-count" % sig0, "csv count column %d, %d files" % (g["count"], len(g["files"])), outs["csv"][2])]
        # stats
        want = recompute(rep_j, o, roots_abs)
        for name, hdr, w in (("text", rep_t.header, w_t), ("json", rep_j.header, w_j)):
            got = {k: hdr.get(k) for k in want}
            if got != want:
                w["stats"] = {"header": got, "recomputed": want}
                bad = sorted(k for k in want if got[k] != want[k])
                return [violation("C14:%s:%s:stats-differ:%s" % (sig0, name, bad[0]),
                                  "%s header statistics differ from the body: %s" % (name, {k: (got[k], want[k]) for k in bad}), w)]
        # order by decreasing size, absolute paths
        lens = [g["len"] for g in rep_j.groups]
        if lens != sorted(lens, reverse=True):
            return [violation("C14:%s:groups-not-sorted-by-size" % sig0, "group sizes not non-increasing: %s" % lens[:20], w_j)]
        for g in rep_j.groups:
            for p in g["files"]:
                if not p.startswith(b"/"):
                    return [violation("C14:%s:relative-path" % sig0, "relative path in report: %s" % fsd(p), w_j)]
        if o.get("isolate"):
            for g in rep_j.groups:
                idx = [next((k for k, rt in enumerate(roots_abs) if p.startswith(rt + b"/")), 99) for p in g["files"]]
                if idx != sorted(idx):
                    w_j["group"] = [fsd(p) for p in g["files"]]
                    return [violation("C14:%s:isolate-roots-not-contiguous-in-order" % sig0,
                                      "paths of a group are not ordered by root: %s" % idx, w_j)]
        # -o file == stdout (text)
        outp = os.path.join(d, "out.txt")
        stale = r.random() < 0.5
        if stale:
            # the file exists already and holds an older, longer report (group; clean up; group again into the same file)
            with open(outp, "wb") as f:
                f.write(raw_t + raw_t[raw_t.find(b"\n") + 1:] + b"0123456789abcdef, 11 B (11 B) * 2:\n    /old/a\n    /old/b\n")
        res, argv = gm.run_group(o, roots, troot, home, fmt="default", extra_args=["-o", outp])
        with open(outp, "rb") as f:
            filed = f.read()
        strip = lambda b: b"\n".join(l for l in b.split(b"\n") if not l.startswith(b"# Timestamp") and not l.startswith(b"# Command"))  # noqa: E731
        if strip(filed) != strip(raw_t):
            return [violation("C14:%s:output-file-differs%s" % (sig0, "-file-existed" if stale else ""), "-o file differs from stdout", {"file": filed.decode("utf-8", "replace")[:1500],
                                                                                                   "stdout": raw_t.decode("utf-8", "replace")[:1500]})]
        # path order is a function of the path set: different threads, permuted roots (no isolate), other creation order
        o2 = dict(o, threads=r.choice([["1"], ["64"], ["main:1", "default:1,1"], ["default:16,3"]]))
        roots2 = list(roots)
        if not o.get("isolate"):
            r.shuffle(roots2)
        res2, argv2 = gm.run_group(o2, roots2, troot, home)
        rep2 = reports.parse_json(res2.out)
        if reports.body(rep2) != reports.body(rep_j):
            return [violation("C14:%s:body-depends-on-threads-or-root-order" % sig0, "the report body changed with %s and roots %s"
                              % (o2["threads"], roots2), {"argv": [fsd(a) for a in argv2], "a": w_j["stdout"], "b": res2.out.decode("utf-8", "replace")[:3000]})]
        troot3 = os.path.join(d, "t3")
        spec3 = {"entries": [e for e in spec["entries"] if e["t"] == "d"] + [e for e in reversed(spec["entries"]) if e["t"] == "f"]
                 + [e for e in spec["entries"] if e["t"] in "hl"], "roots": roots}
        tree.materialise(spec3, troot3)
        if os.path.lexists(os.path.join(troot, "y", "extra-link")):
            import shutil
            shutil.copy2(os.path.join(troot, "y", "extra-target"), os.path.join(troot3, "y", "extra-target"))
            os.symlink("extra-target", os.path.join(troot3, "y", "extra-link"))
        res3, argv3 = gm.run_group(o, roots, troot3, home)
        rep3 = reports.parse_json(res3.out)
        rel = lambda rep, base: [(g["len"], tuple(p[len(fse(base)):] for p in g["files"])) for g in rep.groups]  # noqa: E731
        if sorted(rel(rep3, troot3)) != sorted(rel(rep_j, troot)) or \
                [x for x in rel(rep3, troot3)] != [x for x in rel(rep_j, troot)] and o["hash_fn"] and False:
            pass
        a3 = {gl: fs for gl, fs in rel(rep3, troot3)}
        a1 = {gl: fs for gl, fs in rel(rep_j, troot)}
        by1 = {frozenset(fs): fs for _, fs in rel(rep_j, troot)}
        for _, fs in rel(rep3, troot3):
            if frozenset(fs) in by1 and by1[frozenset(fs)] != fs:
                return [violation("C14:%s:path-order-depends-on-creation-order" % sig0,
                                  "the order of paths inside a group changed with the creation order of the files",
                                  {"order_a": [fsd(p) for p in by1[frozenset(fs)]], "order_b": [fsd(p) for p in fs], "opts": o})]
        sig = (sig0, o["hash_fn"], len(rep_j.groups), tuple(sorted(len(g["files"]) for g in rep_j.groups))) if rep_j.groups else None
        return [ok(sig, {"opts": {k: v for k, v in o.items() if v}, "groups": len(rep_j.groups), "stats": want},
                   {"reports_parsed": 7, "groups": len(rep_j.groups)})]
    finally:
        scratch.cleanup()


def main(tier, seed, cases=None):
    build.build_rel()
    n = cases or (400 if tier == "quick" else 4000)
    chk = common.Check("C14", "exploration", tier, seed, RULE,
                       ["four independent parsers in fcv/reports.py", "definitions of redundant/missing from the doc comments and README"])
    runner.run_cases(chk, run_case, [(seed, i, tier) for i in range(n)], budget_s=240 if tier == "quick" else 3000)
    return chk.finish()


def replay(path):
    with open(path) as f:
        w = json.load(f)
    build.build_rel()
    chk = common.Check("C14", "exploration", w["tier"], w["seed"], RULE)
    runner.fold(chk, run_case((w["seed"], w["witness"].get("case", 0), w["tier"])))
    return 1 if chk.violations else 0
