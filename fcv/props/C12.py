"""C12 - the hash cache never changes results."""
import json
import os
import signal
import subprocess
import time

from .. import build, common, gm, reports, runner, tree
from ..common import fsd, fse
from ..runner import ok, violation, inconclusive

RULE = ("histories of 1..6 steps (edit the tree; run `group --cache` with configuration c_i) on trees whose files share long "
        "prefixes and suffixes; after every step the same configuration runs uncached (fresh $HOME) on the same tree state and "
        "the report bodies (groups, order, paths, lengths, hashes) must be identical. Edits: create, modify same length (mtime forwards, or backwards as "
        "after restoring an older copy), append, truncate, rename/move, delete-and-recreate (inode reuse is measured), hard-link, copy; the harness enforces "
        "the proviso (mtime in ms or length changes with every content change). Configurations switch hash function, "
        "transform (one of them fails on about half of the files after producing partial output), prefix/suffix sizes and pinned disk kind between steps; some cached runs are SIGKILLed at a hook pause "
        "point (after the first prefix hash / after all hashing) before the history continues. Cache hits are counted from the "
        "event hook: non-trivial = history step with >=1 cache hit; distinct = (history, step)")

PAUSE_POINTS = ["hash.done.prefix", "hash.done.contents", "hashing.done", "report.timestamp"]


def cfg_sample(r):
    c = {"hash_fn": r.choice(["metro", "blake3", "sha256", "xxhash"]), "kind": r.choice([None, "ssd", "hdd"]),
            "max_prefix": r.choice([None, None, 100, 65536]), "max_suffix": r.choice([None, None, 100, 4096]),
            "transform": r.choice([None, None, None, "cat", "head100", "head5000", "tail50", "failodd"]), "threads": r.choice([None, ["1"], ["default:4,2"]]),
            "match_links": False, "rf": r.choice([None, None, ("over", 0)]), "min0": False, "cache": None}
    if r.random() < 0.12:
        # a program that rewrites its input file: the same command line, read with or without --in-place
        c.update(transform="in_keep3000", in_place=r.random() < 0.5)
    return c


class Tree:
    """In-memory description of the tree state: path -> content spec; applied directly to disk."""

    def __init__(self, root, r):
        self.root = root
        self.r = r
        self.files = {}  # rel path -> (fam, len, flips)
        self.counter = 0
        # one tree in seven is "ancient": its files carry modification times before 1970 (unpacked from an archive with
        # bogus time stamps); restoring older copies then moves them further back, each to a time stamp of its own
        self.ancient = r.random() < 0.15
        self.inode_reuse = 0
        os.makedirs(os.path.join(root, "r0", "sub"))

    def path(self, rel):
        return os.path.join(self.root, rel)

    def write(self, rel, spec, fresh=False, backdate_ms=None):
        p = self.path(rel)
        prev = None
        if os.path.exists(p) and not fresh:
            st = os.stat(p)
            prev = (st.st_mtime_ns // 1_000_000, st.st_size)
        time.sleep(0.003)
        with open(p, "wb") as f:
            f.write(tree.content(*spec))
        st = os.stat(p)
        if prev and backdate_ms:
            # content restored from an older copy (cp -p, rsync -t, tar -x): the mtime changes, but backwards
            os.utime(p, ns=(st.st_atime_ns, (prev[0] - backdate_ms) * 1_000_000))
        elif prev and (st.st_mtime_ns // 1_000_000, st.st_size) == prev:
            os.utime(p, ns=(st.st_atime_ns, st.st_mtime_ns + 1_000_000))
        elif fresh and self.ancient:
            self.counter += 1
            os.utime(p, ns=(st.st_atime_ns, -(10 ** 9 + self.counter * 7919) * 1_000_000))
        self.files[rel] = spec

    def newname(self):
        self.counter += 1
        return ("r0/" if self.r.random() < 0.6 else "r0/sub/") + "f%d" % self.counter

    def populate(self):
        for fam in range(3):
            L = self.r.choice([5000, 40000, 70000, 131073])
            for k in range(self.r.randrange(2, 4)):
                self.write(self.newname(), (fam + 1, L, ()), fresh=True)
            # same prefix and suffix, different middle
            self.write(self.newname(), (fam + 1, L, (L // 2,)), fresh=True)
            self.write(self.newname(), (fam + 1, L, (L // 2,)), fresh=True)
            # differs early (but after the first 100 bytes): transforms that keep different amounts disagree on it
            self.write(self.newname(), (fam + 1, L, (2000,)), fresh=True)

    def edit(self):
        r = self.r
        kind = r.choice(["create", "modify", "append", "truncate", "rename", "recreate", "hardlink", "copy", "touch-content-back",
                         "modify-backdated"])
        rels = sorted(self.files)
        if not rels:
            kind = "create"
        rel = r.choice(rels) if rels else None
        if kind == "create":
            src = self.files[r.choice(rels)] if rels and r.random() < 0.7 else (r.randrange(10, 20), r.choice([5000, 70000]), ())
            self.write(self.newname(), src, fresh=True)
        elif kind == "modify":
            fam, L, fl = self.files[rel]
            self._unlink_links(rel)
            self.write(rel, (fam, L, (r.choice([0, L // 2, L - 1, L // 3]),)))
        elif kind == "modify-backdated":
            fam, L, fl = self.files[rel]
            self._unlink_links(rel)
            new = (fam, L, (r.choice([0, L // 2, L - 1, L // 3]),)) if fl == () or r.random() < 0.5 else (fam, L, ())
            self.write(rel, new, backdate_ms=r.choice([1, 2, 1000, 86_400_000]))
        elif kind == "append":
            fam, L, fl = self.files[rel]
            self._unlink_links(rel)
            self.write(rel, (fam, L + r.choice([1, 100, 5000]), fl))
        elif kind == "truncate":
            fam, L, fl = self.files[rel]
            self._unlink_links(rel)
            self.write(rel, (fam, max(1, L - r.choice([1, 100, 5000])), fl))
        elif kind == "rename":
            new = self.newname()
            os.rename(self.path(rel), self.path(new))
            self.files[new] = self.files.pop(rel)
        elif kind == "recreate":
            ino = os.stat(self.path(rel)).st_ino
            spec = self.files.pop(rel)
            os.unlink(self.path(rel))
            self.counter += 1
            new = os.path.dirname(rel) + "/f%d" % self.counter  # same directory: ext4 hands the inode out again
            other = self.files[r.choice(sorted(self.files))] if self.files and r.random() < 0.5 else (spec[0], spec[1], (spec[1] // 2 + 7,))
            other = (other[0], spec[1], other[2]) if r.random() < 0.7 else other  # same length as the deleted file, mostly
            self.write(new, other, fresh=True)
            if os.stat(self.path(new)).st_ino == ino:
                self.inode_reuse += 1
        elif kind == "hardlink":
            new = self.newname()
            os.link(self.path(rel), self.path(new))
            self.files[new] = self.files[rel]
        elif kind == "copy":
            self.write(self.newname(), self.files[rel], fresh=True)
        else:
            fam, L, fl = self.files[rel]
            self._unlink_links(rel)
            self.write(rel, (fam, L, ()))
        return kind

    def _unlink_links(self, rel):
        """Writing through one hard link changes all of them: keep the model in sync."""
        try:
            st = os.stat(self.path(rel))
        except OSError:
            return
        if st.st_nlink > 1:
            for other in list(self.files):
                if other != rel and os.path.exists(self.path(other)) and os.stat(self.path(other)).st_ino == st.st_ino:
                    # break the link so that the model stays simple
                    data = self.files[other]
                    os.unlink(self.path(other))
                    self.write(other, data, fresh=True)


def run_until_pause_and_kill(o, troot, home, point, evf):
    pd = os.path.join(home, "pause-%s-%d" % (point.replace(".", "_"), int(time.time() * 1000) % 100000))
    os.makedirs(pd, exist_ok=True)
    env = gm.env_for(o, home, {"FCLONES_VERIF_PAUSE": point, "FCLONES_VERIF_PAUSE_DIR": pd, "FCLONES_VERIF_EVENTS": evf})
    argv = [fse(common.fclones_bin())] + gm.group_argv(dict(o, cache="cold"), ["r0"], "json")
    p = subprocess.Popen(argv, env=env, cwd=troot, stdin=subprocess.DEVNULL, stdout=subprocess.PIPE, stderr=subprocess.PIPE)
    t0 = time.time()
    reached = os.path.join(pd, point + ".reached")
    while time.time() - t0 < 20 and p.poll() is None and not os.path.exists(reached):
        time.sleep(0.002)
    killed = False
    if p.poll() is None:
        time.sleep(0.01)
        p.send_signal(signal.SIGKILL)
        killed = os.path.exists(reached)
    p.communicate()
    return killed


def run_case(arg):
    seed, i, tier = arg
    r = common.rng_for(seed, "C12", i)
    scratch = common.Scratch("C12")
    try:
        d = scratch.case_dir(r.choice(["ext4", "ext4", "ext4", "tmpfs"]))
        troot = os.path.join(d, "t")
        chome = os.path.join(d, "cache-home")
        t = Tree(troot, r)
        t.populate()
        steps = r.randrange(1, 7)
        out = []
        hist = []
        fixed_cfg = cfg_sample(r) if r.random() < 0.5 else None  # half of the histories keep one configuration (more hits)
        for s in range(steps):
            edits = [t.edit() for _ in range(r.randrange(0, 4))] if s > 0 else []
            o = fixed_cfg or cfg_sample(r)
            interrupted = None
            evf = os.path.join(d, "ev-%d.jsonl" % s)
            if r.random() < 0.25:
                point = r.choice(PAUSE_POINTS)
                if run_until_pause_and_kill(o, troot, chome, point, evf + ".killed"):
                    interrupted = point
            res_c, argv_c = gm.run_group(dict(o, cache="cold"), ["r0"], troot, chome, extra_env={"FCLONES_VERIF_EVENTS": evf})
            res_u, argv_u = gm.run_group(o, ["r0"], troot, os.path.join(d, "plain-home-%d" % s))
            hist.append({"step": s, "edits": edits, "cfg": o, "interrupted_before": interrupted})
            w = {"case": i, "history": hist, "argv_cached": [fsd(a) for a in argv_c], "rc_cached": res_c.rc, "rc_uncached": res_u.rc,
                 "stderr_cached": res_c.err_text()[-1500:], "stderr_uncached": res_u.err_text()[-800:], "inode_reuse_seen": t.inode_reuse}
            if res_c.timed_out or res_u.timed_out:
                return out + [inconclusive("group timed out")]
            if res_u.rc != 0:
                return out + [inconclusive("uncached run failed: " + res_u.err_text()[-100:])]
            if res_c.rc != 0 or "panicked" in res_c.err_text():
                return out + [violation("C12:cached-run-failed" + (":after-kill" if any(h["interrupted_before"] for h in hist) else ""),
                                        "cached run exited %s: %s" % (res_c.rc, res_c.err_text()[-300:]), w)]
            try:
                rc_, ru_ = reports.parse_json(res_c.out), reports.parse_json(res_u.out)
            except Exception as e:
                return out + [violation("C12:report-unparsable", str(e), w)]
            hits = misses = 0
            try:
                with open(evf) as f:
                    for l in f:
                        hits += '"cache.hit"' in l
                        misses += '"cache.miss"' in l
            except OSError:
                pass
            if reports.body(rc_) != reports.body(ru_):
                w["cached_body"] = [[g[0], g[1], [fsd(p) for p in g[2]]] for g in reports.body(rc_)][:12]
                w["uncached_body"] = [[g[0], g[1], [fsd(p) for p in g[2]]] for g in reports.body(ru_)][:12]
                w["hits"] = hits
                what = "partition" if rc_.partition() != ru_.partition() else "hashes-or-order"
                last = (edits[-1] if edits else "none")
                return out + [violation("C12:cached-differs-from-uncached:%s" % what,
                                        "step %d (edits %s, config %s): the cached report differs from the uncached one (%s), %d cache hits"
                                        % (s, edits, {k: v for k, v in o.items() if v}, what, hits), w, sig=(i, s))]
            out.append(ok((i, s) if hits else None,
                          {"step": s, "edits": edits, "cfg": {k: v for k, v in o.items() if v}, "hits": hits, "misses": misses} if i < 3 else None,
                          {"cache_hits": hits, "cache_misses": misses, "steps": 1, "interrupted_runs": 1 if interrupted else 0,
                           "edit_kinds": edits}))
        out.append(ok(None, None, {"inode_reuse_observed": t.inode_reuse, "histories": 1}))
        return out
    finally:
        scratch.cleanup()


def main(tier, seed, cases=None):
    build.build_rel()
    n = cases or (300 if tier == "quick" else 5000)
    chk = common.Check("C12", "exploration", tier, seed, RULE,
                       ["the proviso (mtime in ms or length changes with the content) is enforced by the harness",
                        "the uncached reference run uses the same binary without --cache and a fresh $HOME"])
    runner.run_cases(chk, run_case, [(seed, i, tier) for i in range(n)], budget_s=250 if tier == "quick" else 3000)
    return chk.finish()


def replay(path):
    with open(path) as f:
        w = json.load(f)
    build.build_rel()
    chk = common.Check("C12", "exploration", w["tier"], w["seed"], RULE)
    runner.fold(chk, run_case((w["seed"], w["witness"]["case"], w["tier"])))
    return 1 if chk.violations else 0
