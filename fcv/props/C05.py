"""C05 - replacing a file is atomic with respect to crashes and I/O errors (fault enumeration)."""
import errno
import json
import os
import subprocess

from .. import build, common, dd, inventory, reports, runner, shimlog, tree
from ..common import fsd, fse
from ..runner import ok, violation, inconclusive

RULE = ("for each scenario (operation x small tree with hostile names x text/JSON report) a recording run under the shim "
        "(RAYON_NUM_THREADS=1) numbers the mutating libc calls on the tree (N); then, each on a tree restored with cp -a: "
        "kill-before call k for every k in 1..N+1, call k failing with each of EIO/ENOSPC/EXDEV/EPERM/EOPNOTSUPP/EACCES for "
        "every k in 1..N, and (thorough) pairs: call k fails and the j-th following call (j=1..4) fails too; a sample of "
        "kills is repeated with the default thread pool. Oracle = state invariant on the resulting tree: every path the "
        "fault-free run processes still has its bytes at its path, or (kill / failed roll-back only) under a temp sibling "
        "P.<24 alnum>, or is a complete link/clone/copy of identical bytes (for move: at the target, which is on the same or on another file system); retained files are "
        "untouched; nothing else changed (including files that already were in the move target, which in half of the move "
        "scenarios occupy the destination of one of the files); after a failure without kill the path is restored, a warning is logged and "
        "'Processed N' equals what the tree shows. non-trivial = case whose planned fault fired; a case whose fault "
        "never fired is inconclusive")

ERRNOS = [errno.EIO, errno.ENOSPC, errno.EXDEV, errno.EPERM, errno.EOPNOTSUPP, errno.EACCES]
OPS = ["remove", "link", "softlink", "dedupe", "move"]


def scenario(seed, si):
    """Deterministic small scenario: (op, spec, fmt)."""
    r = common.rng_for(seed, "C05scn", si)
    op = OPS[si % len(OPS)]
    names = ["plain", fsd(b"sp ace"), fsd(b"q'uote"), fsd(b"nl\nname"), fsd(b"\xffbad"), fsd("ż😀".encode()), fsd(b"dol$lar"),
             fsd(b"trail "), fsd(b"-dash"), fsd(b"back\\slash")]
    if si % 3 == 1:
        # names at the NAME_MAX (255 bytes) boundary; a one-digit counter is appended below. The temporary sibling
        # (name + "." + 24 characters) of the longer ones cannot exist
        names += ["L" * 254, "M" * 229, "N" * 230]
    r.shuffle(names)
    entries = [{"t": "d", "p": "r0"}, {"t": "d", "p": "r0/sub dir"}]
    ngroups = r.choice([1, 2])
    k = 0
    mt = 0
    for g in range(ngroups):
        n = r.choice([2, 3])
        L = r.choice([1, 100, 5000])
        for m in range(n):
            d = "r0" if (m + g) % 2 == 0 else "r0/sub dir"
            mt += 1
            entries.append({"t": "f", "p": d + "/" + names[k % len(names)] + str(k), "fam": 100 + g + si * 10, "len": L, "flip": [],
                            "mtime": mt})
            k += 1
    if (si // len(OPS)) % 3 == 1 and op != "dedupe":  # (the FICLONE emulation cannot clone a file onto itself)
        # the second member of the first group is a hard link of the first one, and the report is made with
        # --match-links: the two names of one file end up on different sides of the keep/drop split
        fl = [e for e in entries if e["t"] == "f"]
        if len(fl) >= 2 and fl[0]["fam"] == fl[1]["fam"]:
            k2 = entries.index(fl[1])
            entries[k2] = {"t": "h", "p": fl[1]["p"], "to": fl[0]["p"]}
    # an unrelated unique file and a decoy
    entries.append({"t": "f", "p": "r0/unrelated", "fam": 999, "len": 100, "flip": [], "mtime": 50})
    fmt = "default" if si % 2 == 0 else "json"
    return op, {"entries": entries, "roots": ["r0"]}, fmt


def blockers_for(seed, si, op, spec, troot, target):
    """For half of the move scenarios: somebody else's file already sits at the place in the target directory where
    one of the files to be moved would go (that move has to be refused; the file that was there must survive)."""
    if op != "move" or (si // len(OPS)) % 2 == 0:
        return []
    r = common.rng_for(seed, "C05blk", si)
    fl = [e for e in spec["entries"] if e["t"] == "f" and e["fam"] != 999]
    if len(fl) < 2:
        return []
    victim = r.choice(fl[1:])
    dest = fse(target) + fse(os.path.join(troot, victim["p"]))
    data = b"pre-existing file in the move target %d" % si if r.random() < 0.5 else tree.content(victim["fam"], victim["len"], ())
    return [(dest, data)]


def put_blockers(blockers):
    for dest, data in blockers:
        os.makedirs(os.path.dirname(dest), exist_ok=True)
        with open(dest, "wb") as f:
            f.write(data)


def restore(backup, troot, target, blockers=()):
    common.rmtree(troot)
    subprocess.run(["cp", "-a", backup, troot], check=True)
    if target:
        common.rmtree(target)
        os.makedirs(target)
        put_blockers(blockers)


class Scn:
    pass


def prepare(seed, si, scratch):
    s = Scn()
    s.op, s.spec, s.fmt = scenario(seed, si)
    s.d = scratch.case_dir("ext4")
    s.home = os.path.join(s.d, "home")
    s.troot = os.path.join(s.d, "t")
    s.backup = os.path.join(s.d, "backup")
    tree.materialise(s.spec, s.backup)
    subprocess.run(["cp", "-a", s.backup, s.troot], check=True)
    s.target = os.path.join(s.d, "moved") if s.op == "move" else None
    if s.target and (si // len(OPS)) % 4 >= 2:
        # every other pair of move scenarios moves to another file system: rename fails with EXDEV by itself and the
        # copy-then-delete path is the normal one
        s.target = os.path.join(scratch.case_dir("tmpfs"), "moved")
    if s.target:
        os.makedirs(s.target)
    s.blockers = blockers_for(seed, si, s.op, s.spec, s.troot, s.target) if s.target else []
    put_blockers(s.blockers)
    from .. import gm
    s.hardlinked = any(e["t"] == "h" for e in s.spec["entries"])
    res, argv = gm.run_group({"hash_fn": "metro", "match_links": s.hardlinked}, ["r0"], s.troot, s.home, fmt=s.fmt)
    if res.rc != 0:
        return None
    s.report = res.out
    s.rep = reports.parse(res.out, s.fmt)
    s.before = inventory.take(s.troot)
    # recording run
    log = os.path.join(s.d, "rec.log")
    env = shimlog.shim_env(log, [s.troot] + ([s.target] if s.target else []), ficlone=(s.op == "dedupe"))
    rres, rargv = dd.run_dedupe(s.op, {}, s.report, s.troot, s.home, target=s.target, extra_env=env, threads=1)
    ev, fired, junk = shimlog.parse(log)
    s.rec = [e for e in ev if e.cls == "MUT"]
    s.N = len(s.rec)
    lops = dd.log_ops(ev, s.op)
    if s.op == "move":
        s.processed = sorted({o[1] for o in lops if o[0] in ("move", "move-unlink")})
        s.targets = {o[1]: o[2] for o in lops if o[0] == "move"}
    elif s.op == "remove":
        s.processed = sorted({o[1] for o in lops if not dd.TEMP_SUFFIX.search(o[1])})
    else:
        s.processed = sorted({o[1] for o in lops})
    s.processed = [p for p in s.processed if p.startswith(fse(s.troot) + b"/")]
    s.retained = sorted({p for g in s.rep.groups for p in g["files"]} - set(s.processed))
    s.rec_summary = dd.summary(rres.err_text())
    restore(s.backup, s.troot, s.target, s.blockers)
    s.before = inventory.take(s.troot)
    return s


def fault_specs(N, tier):
    specs = []
    for k in range(1, N + 2):
        specs.append(("kill", k, None, None))
    for k in range(1, N + 1):
        for en in ERRNOS:
            specs.append(("fail", k, en, None))
    for k in range(1, N + 1):
        for j in range(1, 5):
            for en in ((errno.EIO,) if tier == "quick" else (errno.EIO, errno.EPERM, errno.ENOSPC)):
                specs.append(("pair", k, en, j))
    for k in range(1, N + 2, 3):
        specs.append(("kill-parallel", k, None, None))
    return specs


def unrealistic(s, spec):
    """EPERM (like ENOSYS/EINVAL) from sendfile means 'not supported for these descriptors'; the kernel cannot return
    it once an earlier sendfile on the same pair has transferred data, and std::fs::copy asserts exactly that
    (library/std/src/sys/io/kernel_copy). Such a fault is not generated."""
    kind, k, en, j = spec
    if kind == "fail" or kind == "pair":
        if en == errno.EPERM and 2 <= k <= len(s.rec):
            c, prev = s.rec[k - 1], s.rec[k - 2]
            if c.op == "sendfile" and prev.op == "sendfile" and prev.p1 == c.p1 and prev.ret > 0:
                return True
    return False


def run_case(arg):
    seed, si, chunk, nchunks, tier = arg
    scratch = common.Scratch("C05")
    try:
        s = prepare(seed, si, scratch)
        if s is None or s.N == 0:
            return [inconclusive("scenario preparation failed or nothing to do")]
        out = []
        specs = fault_specs(s.N, tier)
        for idx, spec in enumerate(specs):
            if idx % nchunks != chunk:
                continue
            if unrealistic(s, spec):
                continue
            out.append(_one(s, spec, si))
            restore(s.backup, s.troot, s.target, s.blockers)
        return out
    finally:
        scratch.cleanup()


def reads(p):
    try:
        return inventory.sha(p)
    except OSError:
        return None


def _one(s, spec, si):
    kind, k, en, j = spec
    if kind in ("kill", "kill-parallel"):
        plan = shimlog.plan(shimlog.rule("MUT", b"", k, "killb"))
    elif kind == "fail":
        plan = shimlog.plan(shimlog.rule("MUT", b"", k, "fail:%d" % en))
    else:
        plan = shimlog.plan(shimlog.rule("MUT", b"", k, "fail:%d" % en), shimlog.rule("MUT", b"", k + j, "fail:%d" % errno.EIO))
    log = os.path.join(s.d, "fault.log")
    if os.path.exists(log):
        os.unlink(log)
    env = shimlog.shim_env(log, [s.troot] + ([s.target] if s.target else []), plan, ficlone=(s.op == "dedupe"))
    before = inventory.take(s.troot)
    tbefore = inventory.take(s.target) if s.target else {}
    threads = None if kind == "kill-parallel" else 1
    rres, rargv = dd.run_dedupe(s.op, {}, s.report, s.troot, s.home, target=s.target, extra_env=env, threads=threads, timeout=60)
    ev, fired, junk = shimlog.parse(log)
    after = inventory.take(s.troot)
    tafter = inventory.take(s.target) if s.target else {}
    call = s.rec[k - 1] if k - 1 < len(s.rec) else None
    witness = {"scenario": si, "op": s.op, "fmt": s.fmt, "fault": {"kind": kind, "k": k, "errno": en, "second_after": j},
               "faulted_call": call.as_dict() if call else "end-of-run", "N": s.N, "spec": s.spec,
               "rc": rres.rc, "stderr": rres.err_text()[-2000:], "fired": fired,
               "log_tail": [e.as_dict() for e in ev if e.cls == "MUT"][-12:]}
    if rres.timed_out:
        return inconclusive("dedupe timed out under fault")
    want_fired = 1 if kind != "pair" else 1
    if k <= s.N and len(fired) < want_fired:
        return inconclusive("planned fault never fired")
    if kind.startswith("kill") and k == s.N + 1:
        # nothing left to kill: the run completes normally
        pass
    killed = kind.startswith("kill") and bool(fired)
    second_fired = kind == "pair" and len(fired) >= 2
    callname = call.op if call else "end"
    sigbase = "%s:%s@%s" % (s.op, "kill" if killed else kind, callname)
    if "panicked" in rres.err_text():
        return violation("C05:%s:panicked" % sigbase, rres.err_text()[-300:], witness)

    # --- state invariant -------------------------------------------------------------------
    for T, rec in tbefore.items():
        if rec["type"] != "d" and (T not in tafter or not inventory.same_entry(rec, tafter[T])):
            witness["target_entry"] = {"path": fsd(T), "before": repr(rec), "after": repr(tafter.get(T))}
            return violation("C05:%s:pre-existing-target-file-touched" % sigbase,
                             "a file that was in the move target before the run was removed or changed: %s" % fsd(T), witness,
                             sig=(s.op, kind, callname))
    temps = [p for p in after if inventory.is_temp_sibling(p) and p not in before]
    for P in s.processed:
        d = before[P]["sha"]
        okay = False
        where = None
        if reads(P) == d:
            okay, where = True, "path"
        if not okay and s.op == "move":
            t = s.targets.get(P) or (fse(s.target) + P)
            if reads(t) == d:
                okay, where = True, "target"
        if not okay and s.op == "remove" and not (killed or kind != "kill"):
            pass
        if not okay:
            for tp in temps:
                if inventory.is_temp_sibling(tp, of=P) and reads(tp) == d and (killed or second_fired):
                    okay, where = True, "temp-sibling"
        if not okay and s.op == "remove":
            # removal is the intended end state of `remove`
            if P not in after:
                okay, where = True, "removed"
        if not okay:
            witness["victim"] = {"path": fsd(P), "after": repr(after.get(P)), "temps": [fsd(t) for t in temps]}
            return violation("C05:%s:original-bytes-unreachable" % sigbase,
                             "after %s at call %d (%s) the bytes of %s are neither at the path, nor under a temp sibling, nor in a "
                             "completed link/copy" % (kind, k, callname, fsd(P)), witness, sig=(s.op, kind, callname))
        # a temp-sibling-only state is legitimate only for a crash or a failed roll-back
    for R in s.retained:
        if R not in after or not inventory.same_entry(before[R], after[R]):
            witness["retained"] = {"path": fsd(R), "before": repr(before[R]), "after": repr(after.get(R))}
            return violation("C05:%s:retained-file-touched" % sigbase, "the retained file %s was touched" % fsd(R), witness,
                             sig=(s.op, kind, callname))
    group_paths = set(s.processed) | set(s.retained)
    removed, added, changed = inventory.diff(before, after)
    stray = [p for p in removed + changed if p not in group_paths and before[p]["type"] != "d"]
    stray += [p for p in added if not inventory.is_temp_sibling(p) and after[p]["type"] != "d"]
    if stray:
        witness["stray"] = [fsd(p) for p in stray[:5]]
        return violation("C05:%s:unrelated-entry-changed" % sigbase, "entries outside the processed files changed: %s"
                         % [fsd(p) for p in stray[:2]], witness, sig=(s.op, kind, callname))
    errt = rres.err_text()
    if temps and not (killed or second_fired):
        # a handled failure may leave a temp sibling only when the replacement itself was completed and
        # the failing call was the clean-up, which must be reported
        complete = all(reads(dd.strip_temp(t)) == before[dd.strip_temp(t)]["sha"] for t in temps if dd.strip_temp(t) in before)
        if not (complete and "Failed to remove temporary" in errt):
            witness["temps"] = [fsd(t) for t in temps]
            return violation("C05:%s:temp-file-left-after-handled-failure" % sigbase,
                             "a temporary sibling was left although the failure was handled without a crash: %s" % fsd(temps[0]), witness,
                             sig=(s.op, kind, callname))
    # --- failure without kill: restored, warned, not counted -----------------------------------
    if not killed and kind in ("fail", "pair") and fired and s.op != "dedupe":
        if s.op in ("remove", "move"):
            actually = sum(1 for P in s.processed if P not in after)
        elif s.op == "link":
            actually = sum(1 for P in s.processed if P in after and after[P]["type"] == "f" and after[P]["ino"] != before[P]["ino"])
        else:
            actually = sum(1 for P in s.processed if P in after and after[P]["type"] == "l")
        # a path that already was a hard link of a retained file looks the same whether `link` replaced it or not
        kept_inos = {before[R]["ino"] for R in s.retained if R in before}
        unknowable = sum(1 for P in s.processed if s.op == "link" and before[P]["ino"] in kept_inos)
        summ = dd.summary(errt)
        if actually + unknowable < len(s.processed) and "warn" not in errt.lower() and "error" not in errt.lower():
            return violation("C05:%s:failure-not-reported" % sigbase, "call %d (%s) failed with errno %s, %d of %d files were "
                             "processed, but nothing was logged" % (k, callname, en, actually, len(s.processed)), witness,
                             sig=(s.op, kind, callname))
        if summ is not None and not (actually <= summ["count"] <= actually + unknowable):
            witness["summary"] = summ
            witness["actually_processed"] = actually
            return violation("C05:%s:failed-file-counted-as-processed" % sigbase,
                             "'Processed %d files' but the tree shows %d processed" % (summ["count"], actually), witness,
                             sig=(s.op, kind, callname))
    sig = (s.op, s.fmt, si, kind, k, en, j) if fired else None
    return ok(sig, {"op": s.op, "fault": kind, "k": k, "errno": en, "call": callname} if k < 3 and si < 2 else None,
              {"faults_fired": len(fired), "double_faults_fired": 1 if second_fired else 0, "kills": 1 if killed else 0, "ops": [s.op], "faulted_calls": [callname],
               "temp_sibling_states": 1 if temps else 0, "runs_with_occupied_move_target": 1 if s.blockers else 0,
               "runs_moving_across_file_systems": 1 if s.target and "/dev/shm" in s.target else 0,
               "runs_on_match_links_reports_with_hard_linked_members": 1 if s.hardlinked else 0})


def main(tier, seed, cases=None):
    build.build_rel()
    build.build_shim()
    nscn = cases or (30 if tier == "quick" else 300)
    nchunks = 6 if tier == "quick" else 8
    chk = common.Check("C05", "fault_enumeration", tier, seed, RULE,
                       ["kill and failure points are libc call boundaries", "FICLONE success is emulated by the shim",
                        "power loss / write-back ordering is out of reach"])
    args = [(seed, si, c, nchunks, tier) for si in range(nscn) for c in range(nchunks)]
    runner.run_cases(chk, run_case, args, budget_s=270 if tier == "quick" else 3300)
    chk.extra["scenarios"] = nscn
    return chk.finish()


def replay(path):
    with open(path) as f:
        w = json.load(f)
    build.build_rel()
    build.build_shim()
    wt = w["witness"]
    chk = common.Check("C05", "fault_enumeration", w["tier"], w["seed"], RULE)
    scratch = common.Scratch("C05")
    try:
        s = prepare(w["seed"], wt["scenario"], scratch)
        f = wt["fault"]
        runner.fold(chk, [_one(s, (f["kind"], f["k"], f["errno"], f["second_after"]), wt["scenario"])])
    finally:
        scratch.cleanup()
    return 1 if chk.violations else 0
