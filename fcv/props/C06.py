"""C06 - replica counting honours links, isolation and the replication filter."""
import json
import os

from .. import build, common, gm, reports, runner, tree
from ..common import fsd, fse
from ..runner import ok, violation, inconclusive

RULE = ("trees with hard links and file symlinks inside and across 1..4 roots x all combinations of --rf-over k / --rf-under k "
        "/ --unique with -H, --isolate, -S (and -L where the documentation allows), roots spelled canonically, relative, "
        "./x, x/, y/../x, through a directory symlink, absolute, and with a different --base-dir; the README's 4-hard-link "
        "table is case 0. Oracle 1: the reported groups equal the documented replica rule applied to the byte partition "
        "(hard links / -S symlinks = one replica, -H = every path, --isolate = at most one replica per root, reported iff "
        "count > rf-over or < rf-under, all paths of the class listed). Oracle 2 (metamorphic): every re-spelling of the "
        "roots gives the same set of groups. non-trivial = class with links or spanning roots whose verdict depends on the "
        "option; distinct = (tree shape, options)")


def gen(r, i):
    """Returns (spec, opts). Tree: roots r0..; classes spread over roots; hard links; symlinks."""
    if i == 0:
        # README 'Handling links' table
        spec = {"entries": [{"t": "d", "p": "dir1"}, {"t": "d", "p": "dir2"},
                            {"t": "f", "p": "dir1/file1", "fam": 5, "len": 100, "flip": [], "mtime": 1},
                            {"t": "h", "p": "dir1/file2", "to": "dir1/file1"},
                            {"t": "h", "p": "dir2/file3", "to": "dir1/file1"},
                            {"t": "h", "p": "dir2/file4", "to": "dir1/file1"}], "roots": ["dir1", "dir2"]}
        return spec, None
    nroots = r.choice([1, 2, 2, 3, 4])
    roots = ["r%d" % k for k in range(nroots)]
    if nroots >= 2 and r.random() < 0.3:
        # sibling roots whose names are string prefixes of each other (photos, photos-backup): a path belongs to the
        # root that is its path prefix, not its string prefix
        roots = ["r1", "r10", "r10-b", "r10-bak"][:nroots]
    entries = [{"t": "d", "p": rt} for rt in roots] + [{"t": "d", "p": rt + "/sub"} for rt in roots]
    entries.append({"t": "d", "p": "y"})
    mt = 0
    names = 0
    files = []
    for c in range(r.randrange(2, 6)):
        fam = r.randrange(1, 10 ** 6)
        L = r.choice([1, 50, 4096, 5000, 20000])
        for m in range(r.randrange(1, 5)):
            rt = r.choice(roots)
            d = rt if r.random() < 0.6 else rt + "/sub"
            names += 1
            p = "%s/f%d" % (d, names)
            mt += 1
            entries.append({"t": "f", "p": p, "fam": fam, "len": L, "flip": [], "mtime": mt})
            files.append(p)
            # hard links, possibly in another root
            for _ in range(r.choice([0, 0, 0, 1, 2])):
                rt2 = r.choice(roots)
                names += 1
                hp = "%s/h%d" % (rt2 if r.random() < 0.5 else rt2 + "/sub", names)
                entries.append({"t": "h", "p": hp, "to": p})
    sym = r.random() < 0.4
    if sym:
        for _ in range(r.randrange(1, 4)):
            tgt = r.choice(files)
            rt2 = r.choice(roots)
            names += 1
            entries.append({"t": "l", "p": "%s/s%d" % (rt2, names), "to": "@ABS@/" + tgt})
    spec = {"entries": entries, "roots": roots}
    return spec, sym


def sample_opts(r, nroots, sym):
    o = {"hash_fn": r.choice(["metro", "blake3"]), "kind": r.choice([None, "ssd", "hdd"]), "threads": None,
         "match_links": r.random() < 0.3, "isolate": False, "symbolic_links": bool(sym and r.random() < 0.7),
         "follow_links": False, "rf": None, "transform": "cat" if r.random() < 0.1 else None}
    k = r.choice([0, 1, 1, 2, 3])
    o["rf"] = r.choice([None, ("over", k), ("under", max(1, k)), ("unique", None)])
    if nroots >= 2 and r.random() < 0.45:
        rf = gm.rf_params(o)
        if (rf[0] == "over" and nroots > rf[1]) or (rf[0] == "under" and nroots >= rf[1]):
            o["isolate"] = True
    if o["match_links"] and o["symbolic_links"]:
        o["symbolic_links"] = False  # dangerous combination is C02's exclusion; keep the model simple here
    if not o["transform"] and r.random() < 0.15:
        # the counting rule does not depend on which stages ran (the classes of these trees differ in their first bytes,
        # so size + prefix + suffix already tell them apart)
        o["skip_content_hash"] = True
    return o


def spellings(r, root, troot):
    """Alternative spellings of a root directory, all denoting the same directory."""
    return [root, "./" + root, root + "/", "y/../" + root, os.path.join(troot, root), "lnk-" + root]


def run_case(arg):
    seed, i, tier = arg
    r = common.rng_for(seed, "C06", i)
    spec, sym = gen(r, i)
    scratch = common.Scratch("C06")
    try:
        d = scratch.case_dir("ext4")
        troot = os.path.join(d, "t")
        for e in spec["entries"]:
            if e["t"] == "l" and e["to"].startswith("@ABS@/"):
                e["to"] = troot + "/" + e["to"][6:]
        tree.materialise(spec, troot)
        os.makedirs(os.path.join(troot, "y"), exist_ok=True)
        roots = spec["roots"]
        for rt in roots:
            os.symlink(rt, os.path.join(troot, "lnk-" + rt))
        roots_abs = [fse(os.path.join(troot, rt)) for rt in roots]
        home = os.path.join(d, "home")
        if i == 0:
            variants = [({"hash_fn": "metro"}, 0), ({"hash_fn": "metro", "isolate": True}, 1), ({"hash_fn": "metro", "match_links": True}, 1)]
            out = []
            for o, expect_groups in variants:
                res, argv = gm.run_group(o, roots, troot, home)
                rep = reports.parse_json(res.out)
                w = {"case": 0, "argv": [fsd(a) for a in argv], "groups": [[fsd(p) for p in g["files"]] for g in rep.groups]}
                if len(rep.groups) != expect_groups or (expect_groups and len(rep.groups[0]["files"]) != 4):
                    out.append(violation("C06:readme-table", "README 'Handling links' table not reproduced for %s" % w["argv"][1:], w))
                else:
                    out.append(ok(("readme", tuple(sorted(o))), w))
            return out
        o = sample_opts(r, len(roots), sym)
        scanned = gm.scan_plain(roots_abs, symbolic_links=o["symbolic_links"])
        files = {p: {"key": gm.file_key(p, o), "id": fid} for p, fid in scanned.items()}
        expected = gm.expected_partition(files, o, roots_abs)
        sigparts = "+".join(k for k in ("isolate", "match_links", "symbolic_links", "skip_content_hash") if o.get(k)) or "plain"
        sigparts += ":" + (o["rf"][0] if o["rf"] else "default")
        results = {}
        out = []
        # spelling 0 = canonical relative names; others are re-spellings (one random choice per root)
        spell_sets = [list(roots)]
        for _ in range(3):
            spell_sets.append([r.choice(spellings(r, rt, troot)) for rt in roots])
        if not o["isolate"]:
            # every root given twice under different spellings: each file must still be counted once
            spell_sets.append([x for rt in roots for x in (rt, r.choice(spellings(r, rt, troot)[1:]))])
        spell_sets.append(None)  # --base-dir variant
        nontrivial = False
        for k, ss in enumerate(spell_sets):
            if ss is None:
                cwd = d
                res, argv = gm.run_group(o, roots, cwd, home, extra_args=["--base-dir", troot])
                label = "base-dir"
            else:
                res, argv = gm.run_group(o, ss, troot, home)
                label = "/".join(ss)
            w = {"case": i, "opts": o, "spec": spec, "spelling": label, "argv": [fsd(a) for a in argv], "rc": res.rc,
                 "stderr": res.err_text()[-1500:]}
            if res.timed_out:
                return [inconclusive("group timed out")]
            if res.rc != 0:
                return [violation("C06:%s:group-failed" % sigparts, "group failed for spelling %s: %s" % (label, res.err_text()[-200:]), w)]
            rep = reports.parse_json(res.out)
            got = rep.partition()
            results[label] = got
            kind_spelling = "canonical" if k == 0 else ("base-dir" if ss is None else "respelled")
            if got != expected:
                dd_ = gm.describe_partition_diff(expected, got)
                w["diff"] = dd_
                why = "class-missing" if dd_["n_missing"] and not dd_["n_extra"] else "class-extra" if dd_["n_extra"] and not dd_["n_missing"] else "classes-differ"
                return [violation("C06:%s:%s:%s" % (sigparts, kind_spelling, why),
                                  "roots spelled %s: reported groups differ from the documented replica rule: %d classes missing, %d extra; %s"
                                  % (label, dd_["n_missing"], dd_["n_extra"], (dd_["expected_not_reported"] or dd_["reported_not_expected"])[:1]),
                                  w, sig=(i, sigparts))]
        # non-trivial: some class has links or spans roots
        for key in {v["key"] for v in files.values()}:
            members = [(p, v["id"]) for p, v in files.items() if v["key"] == key]
            ids = {m[1] for m in members}
            rts = {next((k for k, rt in enumerate(roots_abs) if p.startswith(rt + b"/")), None) for p, _ in members}
            if len(ids) < len(members) or len(rts) > 1:
                nontrivial = True
        sig = (tuple(sorted((e["t"], e["p"].split("/")[0]) for e in spec["entries"] if e["t"] in "fhl")), gm.opts_sig({**{"max_prefix": None, "max_suffix": None, "cache": None, "min0": False, "fs": "ext4"}, **o}), o["isolate"], o["symbolic_links"]) if nontrivial else None
        return [ok(sig, {"opts": {k: v for k, v in o.items() if v}, "roots": roots, "spellings": list(results)[:3],
                         "expected_classes": len(expected)}, {"runs": len(spell_sets), "expected_classes": len(expected)})]
    finally:
        scratch.cleanup()


def main(tier, seed, cases=None):
    build.build_rel()
    n = cases or (600 if tier == "quick" else 6000)
    chk = common.Check("C06", "exploration", tier, seed, RULE,
                       ["replica rule transcribed from README 'Handling links' and --help", "overlapping roots under --isolate are not generated"])
    runner.run_cases(chk, run_case, [(seed, i, tier) for i in range(n)], budget_s=240 if tier == "quick" else 3000)
    return chk.finish()


def replay(path):
    with open(path) as f:
        w = json.load(f)
    build.build_rel()
    chk = common.Check("C06", "exploration", w["tier"], w["seed"], RULE)
    runner.fold(chk, run_case((w["seed"], w["witness"]["case"], w["tier"])))
    return 1 if chk.violations else 0
