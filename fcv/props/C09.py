"""C09 - the scan selects exactly the files the options describe."""
import json
import os

from .. import build, common, gm, reports, runner, scanref
from ..common import fsd, fse
from ..runner import ok, violation, inconclusive

RULE = ("generated trees (nesting 0..6, hidden files/dirs, .gitignore/.fdignore with literal, *.ext and dir/ rules, file and "
        "directory symlinks: relative, absolute, dangling, cyclic, into tmpfs; directory names with regex metacharacters, "
        "spaces and non-ASCII text; several file sizes) x random combinations of --depth, --hidden, --no-ignore, -L, -S, "
        "--min/--max, --name, --path, --exclude (globs or a regex subset, absolute or cwd-relative, optional --ignore-case), "
        "--one-fs, with overlapping and repeated roots and unusual working directories. The set of paths listed by "
        "`group --rf-over 0 -f json` must contain every 'must' path of the reference walk (fcv/scanref.py, from README/--help) "
        "and nothing outside must+don't-care, with no path twice. Don't-care only where the documentation is silent (explicit "
        "hidden root, contents of a directory whose own path is excluded). non-trivial = run where some option removes files "
        "that a plain scan would list; distinct = (tree shape, option set)")

DIR_NAMES = ["a", "b", "sub", "x-1", "d.ir", "p+q", "(par)", "[br]", "{cu}", "c^r", "do$l", "pi|pe", "sp ace", "żółw", "日本", "UP", "Mixed"]
FILE_NAMES = ["f.txt", "g.txt", "h.bin", "i.jpg", "data", "note.TXT", "a b.txt", "ż.txt", "x-1.log", "k(1).txt", "UPPER.JPG", "m+n.bin", "pay$", "two\nlines.txt"]
GLOB_NAME = ["*.txt", "*.jpg", "?.txt", "*", "{f,g}.*", "[a-h]*", "*.{txt,bin}", "*a*", "@(f|g).txt", "+([a-z]).txt", "note*", "k\\(1\\).txt", "*y$", "pa?$", "pay$"]
REGEX_NAME = [".*\\.txt", "[fg]\\..*", ".*a.*", "[a-z]+\\.[a-z]+", ".*y\\$", "pay\\$$"]


def gen_tree(r, troot, tmpfs_dir):
    """Creates the tree on disk; returns (dirs, files) as absolute bytes paths."""
    os.makedirs(troot)
    dirs = []
    roots = []
    for k in range(r.choice([1, 1, 2, 3])):
        rt = os.path.join(troot, "root%d" % k if r.random() < 0.8 else r.choice(["r-%d" % k, "r.%d" % k, "r (%d)" % k, "ż%d" % k]))
        os.makedirs(rt)
        roots.append(rt)
        dirs.append(rt)
    for _ in range(r.randrange(2, 12)):
        parent = r.choice(dirs)
        if parent[len(troot):].count("/") > 6:
            continue
        name = r.choice(DIR_NAMES)
        if r.random() < 0.12:
            name = "." + name
        d = os.path.join(parent, name)
        if not os.path.lexists(d):
            os.makedirs(d)
            dirs.append(d)
    files = []
    for _ in range(r.randrange(5, 30)):
        d = r.choice(dirs)
        name = r.choice(FILE_NAMES)
        if r.random() < 0.1:
            name = "." + name
        p = os.path.join(d, name)
        if os.path.lexists(p):
            continue
        size = r.choice([0, 1, 10, 100, 1000, 5000])
        with open(p, "wb") as f:
            f.write(r.randbytes(size) if r.random() < 0.5 else b"A" * size)
        files.append(p)
    # ignore files
    for d in r.sample(dirs, min(len(dirs), r.choice([0, 0, 1, 2]))):
        rules = r.sample(["*.bin", "*.log", "data", "sub/", "b/", "f.txt", "UP/"], r.randrange(1, 3))
        with open(os.path.join(d, r.choice([".gitignore", ".fdignore"])), "w") as f:
            f.write("\n".join(rules) + "\n")
        for rule in rules:
            if rule.endswith("/") and r.random() < 0.5 and files:
                # a link (not a directory) named like a directories-only rule, in the rule's scope
                below = [x for x in dirs if x == d or x.startswith(d + "/")]
                lp = os.path.join(r.choice(below), rule[:-1])
                if not os.path.lexists(lp):
                    os.symlink(r.choice(files if r.random() < 0.7 else dirs), lp)
    # symlinks
    for _ in range(r.choice([0, 0, 1, 2, 4])):
        d = r.choice(dirs)
        kind = r.choice(["file-rel", "file-abs", "dir-rel", "dir-abs", "dangling", "cycle", "tmpfs-dir", "tmpfs-file",
                         "dir-abs-dotdot", "file-abs-dotdot"])
        # some links carry a name that an ignore rule mentions (a `name/` rule is for directories only, and a link is not one)
        lp = os.path.join(d, "ln%d" % r.randrange(1000) if r.random() < 0.7 else r.choice(["sub", "b", "UP", "data"]))
        if os.path.lexists(lp):
            continue
        try:
            if kind == "file-rel" and files:
                os.symlink(os.path.relpath(r.choice(files), d), lp)
            elif kind == "file-abs" and files:
                os.symlink(r.choice(files), lp)
            elif kind == "dir-rel":
                os.symlink(os.path.relpath(r.choice(dirs), d), lp)
            elif kind == "dir-abs":
                os.symlink(r.choice(dirs), lp)
            elif kind in ("dir-abs-dotdot", "file-abs-dotdot") and (files if kind[0] == "f" else dirs):
                # an absolute target whose text is not canonical: /x/sub/../sub/name
                t = r.choice(files if kind[0] == "f" else dirs)
                par = os.path.dirname(t)
                os.symlink(os.path.join(par, "..", os.path.basename(par), os.path.basename(t)), lp)
            elif kind == "dangling":
                os.symlink("nowhere/at/all", lp)
            elif kind == "cycle":
                os.symlink("..", lp)
            elif kind == "tmpfs-dir":
                os.symlink(tmpfs_dir, lp)
            else:
                os.symlink(os.path.join(tmpfs_dir, "tf1.txt"), lp)
        except OSError:
            pass
    return roots, dirs, files


def sample_opts(r, troot, roots, dirs):
    o = {}
    if r.random() < 0.3:
        o["depth"] = r.choice([1, 1, 2, 3])
    if r.random() < 0.3:
        o["hidden"] = True
    if r.random() < 0.25:
        o["no_ignore"] = True
    if r.random() < 0.3:
        o["follow_links"] = True
    if r.random() < 0.25:
        o["symbolic_links"] = True
    if r.random() < 0.3:
        o["min_size"] = r.choice([0, 2, 100, 1001])
    if r.random() < 0.2:
        o["max_size"] = r.choice([1, 100, 1000])
    regex = r.random() < 0.2
    o["regex"] = regex
    if r.random() < 0.3:
        o["ignore_case"] = True
    rel = lambda p, cwd: os.path.relpath(p, cwd)  # noqa: E731
    if r.random() < 0.35:
        o["names"] = [r.choice(REGEX_NAME if regex else GLOB_NAME) for _ in range(r.choice([1, 2]))]

    def path_pat(cwd):
        d = r.choice(dirs)
        relative = r.random() < 0.5
        base = rel(d, cwd) if relative else d
        if base == ".":
            base = ""
        if regex:
            import re
            b = re.escape(base)
            return r.choice([(b + "/" if b else "") + ".*", ".*/" + re.escape(os.path.basename(d)) + "/.*", (b + "/" if b else "") + "[^/]*\\.txt"])
        esc = "".join(c if (c.isalnum() or c in "/._-") else "\\" + c for c in base)
        choices = [(esc + "/" if esc else "") + "**", "**/" + "".join(c if (c.isalnum() or c in "._-") else "\\" + c for c in os.path.basename(d)) + "/**",
                   (esc + "/" if esc else "") + "*.txt", (esc + "/" if esc else "") + "*/*", "**/*.{txt,jpg}"]
        return r.choice(choices)
    o["_want_path"] = r.random() < 0.3
    o["_want_excl"] = r.random() < 0.3
    o["_path_pat"] = path_pat
    if r.random() < 0.15:
        o["one_fs"] = True
    return o


def run_case(arg):
    seed, i, tier = arg
    r = common.rng_for(seed, "C09", i)
    scratch = common.Scratch("C09")
    try:
        d = scratch.case_dir("ext4")
        td = scratch.case_dir("tmpfs")
        tmpfs_dir = os.path.join(td, "shmdir")
        os.makedirs(os.path.join(tmpfs_dir, "inner"))
        for n, sz in (("tf1.txt", 10), ("inner/tf2.txt", 200)):
            with open(os.path.join(tmpfs_dir, n), "wb") as f:
                f.write(b"T" * sz)
        troot = os.path.join(d, r.choice(["t", "t", "t-1", "t.1", "tż", "t (x)", "t [old]", "t{1,2}", "t*s", "q?x", "b\\s"]))
        roots, dirs, files = gen_tree(r, troot, tmpfs_dir)
        cwd = r.choice([troot, troot, roots[0], d])
        o = sample_opts(r, troot, roots, dirs)
        path_pat = o.pop("_path_pat")
        if o.pop("_want_path"):
            o["paths"] = [path_pat(cwd) for _ in range(r.choice([1, 2]))]
        if o.pop("_want_excl"):
            o["excludes"] = [path_pat(cwd) for _ in range(r.choice([1, 2]))]
        # roots as given on the command line: relative to cwd or absolute, maybe overlapping / repeated
        given = []
        for rt in roots:
            given.append(os.path.relpath(rt, cwd) if r.random() < 0.5 else rt)
        if r.random() < 0.2:
            given.append(given[0])
        if r.random() < 0.2 and len(dirs) > len(roots):
            given.append(r.choice(dirs[len(roots):]))  # a directory below a root: overlapping roots
        if r.random() < 0.15 and files:
            given.append(r.choice(files))  # a file given explicitly
        if o.get("follow_links") and o.get("isolate"):
            o.pop("isolate")
        argv = [fse(common.fclones_bin()), b"group", b"--rf-over", b"0", b"-f", b"json"]
        if "min_size" in o:
            argv += [b"--min", str(o["min_size"]).encode()]
        if "max_size" in o:
            argv += [b"--max", str(o["max_size"]).encode()]
        if "depth" in o:
            argv += [b"--depth", str(o["depth"]).encode()]
        for flag, key in ((b"--hidden", "hidden"), (b"--no-ignore", "no_ignore"), (b"-L", "follow_links"), (b"-S", "symbolic_links"),
                          (b"--regex", "regex"), (b"--ignore-case", "ignore_case"), (b"--one-fs", "one_fs")):
            if o.get(key):
                argv.append(flag)
        for key, flag in (("names", b"--name"), ("paths", b"--path"), ("excludes", b"--exclude")):
            for p in o.get(key, []):
                argv += [flag, fse(p)]
        argv += [b"--"] if False else []
        argv += [fse(g) for g in given]
        home = os.path.join(d, "home")
        res = common.run(argv, common.pinned_env(home), cwd=cwd, timeout=60)
        w = {"case": i, "opts": o, "cwd": cwd, "given_roots": given, "argv": [fsd(a) for a in argv], "rc": res.rc,
             "stderr": res.err_text()[-1500:]}
        if res.timed_out:
            return [inconclusive("group timed out")]
        so = scanref.Opts(depth=o.get("depth"), hidden=o.get("hidden", False), no_ignore=o.get("no_ignore", False),
                          follow_links=o.get("follow_links", False), symbolic_links=o.get("symbolic_links", False),
                          min_size=o.get("min_size", 1), max_size=o.get("max_size"), names=o.get("names", []),
                          paths=o.get("paths", []), excludes=o.get("excludes", []), regex=o.get("regex", False),
                          ignore_case=o.get("ignore_case", False), one_fs=o.get("one_fs", False), cwd=fse(cwd))
        abs_roots = [fse(g if os.path.isabs(g) else os.path.join(cwd, g)) for g in given]
        try:
            must, dontcare = scanref.reference_scan(abs_roots, so)
        except globref_unsupported() as e:
            return [inconclusive("reference does not define pattern: %s" % e)]
        if res.rc != 0:
            if "No input files" in res.err_text() or "Invalid pattern" in res.err_text():
                return [inconclusive("usage error: " + res.err_text()[-80:])]
            return [violation("C09:group-failed", "group exited %s: %s" % (res.rc, res.err_text()[-200:]), w)]
        rep = reports.parse_json(res.out)
        listed = [p for g in rep.groups for p in g["files"]]
        got = set(listed)
        feat = "+".join(sorted(k for k in ("depth", "hidden", "no_ignore", "follow_links", "symbolic_links", "min_size", "max_size",
                                             "names", "paths", "excludes", "one_fs") if o.get(k) not in (None, False, [])))
        feat += ("+regex" if o.get("regex") and (o.get("names") or o.get("paths") or o.get("excludes")) else "")
        feat += ("+ignore_case" if o.get("ignore_case") and (o.get("names") or o.get("paths") or o.get("excludes")) else "")
        if len(listed) != len(got):
            dup = sorted(p for p in got if listed.count(p) > 1)
            w["dup"] = [fsd(p) for p in dup[:5]]
            return [violation("C09:%s:path-listed-twice" % feat, "a path is listed twice: %s" % fsd(dup[0]), w, sig=(i, feat))]
        missing = sorted(must - got)
        extra = sorted(got - must - dontcare)
        if missing and not extra and multibyte_prefix(so, cwd):
            w["missing"] = [fsd(p) for p in missing[:8]]
            return [violation("C09:pruning:multibyte-literal-prefix",
                              "%d selected files are missing; an include pattern (or the working directory of a relative one) has a "
                              "multi-byte character in its literal prefix, e.g. %s" % (len(missing), fsd(missing[0])), w, sig=(i, feat))]
        if missing or extra:
            w["missing"] = [fsd(p) for p in missing[:8]]
            w["extra"] = [fsd(p) for p in extra[:8]]
            kind = "file-missed" if missing and not extra else "file-wrongly-included" if extra and not missing else "both"
            return [violation("C09:%s:%s" % (feat or "plain", kind),
                              "%d files that the options select are missing, %d listed files are not selected; e.g. %s"
                              % (len(missing), len(extra), [fsd(p) for p in (missing + extra)[:2]]), w, sig=(i, feat))]
        plain_must, _ = scanref.reference_scan(abs_roots, scanref.Opts(min_size=0, hidden=True, no_ignore=True, cwd=fse(cwd)))
        nontrivial = len(must) < len(plain_must) or o.get("follow_links") or o.get("symbolic_links")
        sig = (feat, len(must), len(plain_must), len(given)) if nontrivial else None
        return [ok(sig, {"argv": [fsd(a) for a in argv][2:], "must": len(must), "dontcare": len(dontcare), "listed": len(got)},
                   {"files_must": len(must), "files_dontcare": len(dontcare), "features": feat.split("+")})]
    finally:
        scratch.cleanup()


def multibyte_prefix(so, cwd):
    """True if some include path pattern, made absolute, starts with literal text containing a multi-byte character
    (known finding D6: directory pruning compares byte lengths with character counts)."""
    for pat in so.paths:
        ap = scanref._abs_pattern(pat, so.cwd, so.regex)
        lit = ""
        k = 0
        while k < len(ap):
            c = ap[k]
            if c == "\\" and k + 1 < len(ap):
                lit += ap[k + 1]
                k += 2
                continue
            if c in "*?[{(@+!|" or (so.regex and c in ".^$"):
                break
            lit += c
            k += 1
        if not lit.isascii():
            return True
    return False


def globref_unsupported():
    from .. import globref
    return globref.Unsupported


def main(tier, seed, cases=None):
    build.build_rel()
    n = cases or (3000 if tier == "quick" else 12000)
    chk = common.Check("C09", "exploration", tier, seed, RULE,
                       ["reference walk fcv/scanref.py and glob reference fcv/globref.py written from README/--help",
                        "ignore files restricted to literal names, *.ext and dir/ rules; regexes to a subset where Python re and Rust regex agree"])
    runner.run_cases(chk, run_case, [(seed, i, tier) for i in range(n)], budget_s=250 if tier == "quick" else 3000)
    return chk.finish()


def replay(path):
    with open(path) as f:
        w = json.load(f)
    build.build_rel()
    chk = common.Check("C09", "exploration", w["tier"], w["seed"], RULE)
    runner.fold(chk, run_case((w["seed"], w["witness"]["case"], w["tier"])))
    return 1 if chk.violations else 0
