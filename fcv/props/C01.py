"""C01 - reported groups contain only files with byte-identical content."""
import json

from .. import build, common, gm, runner
from . import gmcase

RULE = ("seeded trees with content classes and same-length single-byte decoys at stage-threshold offsets x "
        "sampled group configurations (7 hash fns, cache, pinned disk kind, prefix/suffix sizes, transforms, "
        "thread pools, tmpfs/ext4); every member of every reported group is byte-compared with the first. "
        "non-trivial = run whose report has a group with >=2 inodes whose length class also had a decoy "
        "(or a transform); distinct = distinct (tree shape, option tuple)")


def main(tier, seed, cases=None):
    build.build_rel()
    build.build_shim()
    n = cases or (600 if tier == "quick" else 12000)
    chk = common.Check("C01", "exploration", tier, seed, RULE,
                       ["byte comparison by Python", "transform models in fcv/gm.py equal the helper commands"])
    if not gm_selfcheck(chk):
        return 2
    runner.run_cases(chk, gmcase.run_case, [(seed, "C01", i, tier) for i in range(n)],
                     budget_s=240 if tier == "quick" else 3000)
    return chk.finish()


def gm_selfcheck(chk):
    """The Python transform models must agree with the real helper commands."""
    import subprocess
    sample = bytes(range(256)) * 40
    env = common.pinned_env("/tmp/fcv-selfcheck-home-%d" % __import__("os").getpid())
    okay = True
    for name, (cmd, model) in gm.TRANSFORMS.items():
        if "$IN" in cmd:
            continue
        out = subprocess.run(cmd.split(" "), input=sample, stdout=subprocess.PIPE, env=env).stdout
        if out != model(sample):
            print("HARNESS-ERROR transform model %s disagrees with its command" % name)
            okay = False
    common.rmtree(env["HOME"])
    return okay


def replay(path):
    with open(path) as f:
        w = json.load(f)
    build.build_rel()
    chk = common.Check("C01", "exploration", w["tier"], w["seed"], RULE)
    runner.fold(chk, gmcase.run_case((w["seed"], "C01", w["witness"]["case"], w["tier"])))
    return 1 if chk.violations else 0
