"""C16 - globs match as documented and directory pruning is conservative (library level)."""
import json
import subprocess
import time

from .. import build, common

RULE = ("all globs of <= N tokens over {a b . - + ( ż \\* ? * ** / [ab] [!a] {a,b/} @(a|b) ?(a) +(ab) *(a|.)} used as "
        "absolute ('/'+g, '**/'+g) and as relative patterns (3 base dirs incl. regex metacharacters and non-ASCII), plus "
        "random longer ones, x all absolute paths of <=3 components over {a b .a - ż ab a.b a\\nb} (+300 of 4); "
        "Pattern::matches must equal the reference matcher; for every matching path every ancestor directory must "
        "pass matches_partially and PathSelector::matches_dir; an --exclude-pruned directory may contain only excluded "
        "paths; --ignore-case sweeps upper-cased paths. non-trivial = glob that matches some and rejects some path")


def run(tier, seed):
    build.build_harness()
    if tier == "quick":
        argv = ["--max-tokens", "4", "--random", "5000"]
    else:
        argv = ["--max-tokens", "5", "--random", "200000"]
    t0 = time.time()
    p = subprocess.run([build.harness_bin("c16_glob"), "--seed", str(seed)] + argv, stdout=subprocess.PIPE,
                       stderr=subprocess.PIPE, timeout=7200)
    if p.returncode != 0:
        print("HARNESS-ERROR c16_glob exited %s: %s" % (p.returncode, p.stderr.decode("utf-8", "replace")[-2000:]))
        return None
    return json.loads(p.stdout.decode("utf-8"))


def main(tier, seed, cases=None):
    chk = common.Check("C16", "exploration", tier, seed, RULE,
                       ["reference glob matcher harness/src/lib.rs::globref written from the README table",
                        "constructs the README does not define are skipped ([^..], !(), unbalanced brackets)",
                        "whether excluding a directory's own path excludes its contents is treated as don't-care"])
    j = run(tier, seed)
    if j is None:
        return 2
    chk.evaluations = j["globs"] - j["globs_skipped_undefined"]
    for k in ("match_checks", "positives", "partial_checks", "selector_checks", "relative_checks", "exclude_checks",
              "pruned_dirs", "ci_checks", "ci_partial_checks", "globs_skipped_undefined", "exhaustive_globs", "random_globs", "paths"):
        chk.extra[k] = j[k]
    chk.extra["bounded_part"] = "all globs of <= %d tokens (exhaustive); beyond that random" % j["max_tokens"]
    chk.exhaustive = False
    chk.samples = [{"glob": g} for g in j["samples"]]
    # distinct non-trivial globs are counted by the harness
    chk.nontrivial = set(range(j["globs_nontrivial"]))
    by_sig = {}
    for v in j["violations"]:
        by_sig.setdefault(v["signature"], []).append(v)
    for sig, n in j["signature_counts"].items():
        ex = by_sig.get(sig, [{}])[0]
        chk.evaluations -= 0
        chk.violation(sig, "%d cases, e.g. glob %r path %r: %s" % (n, ex.get("glob"), ex.get("path"), ex.get("detail")),
                      {"examples": by_sig.get(sig, []), "count": n, "argv_tier": tier})
        chk.evaluations -= 1  # violation() counted one evaluation; the glob was already counted
    return chk.finish()


def replay(path):
    with open(path) as f:
        w = json.load(f)
    return main(w["tier"], w["seed"])
