"""C17 - shell quoting of paths and arguments is lossless."""
import json
import os
import subprocess

from .. import build, common, gm, reports, tree
from ..common import fsd, fse

RULE = ("library level (verif_api): every string of length <= L over a 21-symbol alphabet of troublesome bytes "
        "(space tab newline ' \" \\ $ ` ~ * # ! = a - ż 😀 0xFF 0xC5 0x7F 0x01), all lists of <=3 one-symbol strings, "
        "(thorough: all pairs of strings of length <=2), random strings/lists up to 4 KiB: split(quote(s)) == [s], "
        "split(join(xs)) == xs, and bash (LC_ALL=C, HOME=/nonexistent-fcv) decodes the same text to the same bytes; "
        "CLI level: the '# Command:' line of real `group` runs with hostile root names, decoded by bash, equals the real "
        "argv. non-trivial = item whose quoted form needs quoting (not bare); distinct = distinct items")


def run_harness(tier, seed):
    if tier == "quick":
        argv = ["--max-len", "4", "--random", "20000", "--pair-len", "1"]
    else:
        argv = ["--max-len", "4", "--random", "400000", "--pair-len", "2"]
    p = subprocess.run([build.harness_bin("c17_quote"), "--seed", str(seed)] + argv, stdout=subprocess.PIPE,
                       stderr=subprocess.PIPE, timeout=7200)
    if p.returncode != 0:
        print("HARNESS-ERROR c17_quote exited %s: %s" % (p.returncode, p.stderr.decode("utf-8", "replace")[-2000:]))
        return None
    return json.loads(p.stdout.decode("utf-8"))


def bash_words(line, tmpdir):
    """Decodes a shell line into words with bash itself."""
    env = {"PATH": "/nonexistent", "HOME": "/nonexistent-fcv", "LC_ALL": "C"}
    script = b"printf '%s\\0' " + line + b"\n"
    p = subprocess.run(["/bin/bash", "--norc", "--noprofile", "-s"], input=script, env=env, stdout=subprocess.PIPE,
                       stderr=subprocess.PIPE, cwd="/", timeout=30)
    out = p.stdout
    if not out.endswith(b"\0"):
        return None
    return out[:-1].split(b"\0")


def cli_cases(chk, seed, n):
    scratch = common.Scratch("C17")
    try:
        for i in range(n):
            r = common.rng_for(seed, "C17cli", i)
            d = scratch.case_dir("ext4")
            troot = os.path.join(d, "t")
            os.makedirs(troot)
            roots = []
            used = set()
            for k in range(r.randrange(1, 4)):
                name = tree.pick_name(r, used, hostile_p=0.9)
                if name.startswith("-"):
                    name = "./" + name
                rp = os.path.join(fse(troot), fse(name))
                os.makedirs(rp, exist_ok=True)
                with open(os.path.join(rp, b"f1"), "wb") as f:
                    f.write(b"same content")
                with open(os.path.join(rp, b"f2"), "wb") as f:
                    f.write(b"same content")
                roots.append(fse(name))
            extra = []
            if r.random() < 0.5:
                extra += [b"--name", fse(r.choice(["*", "f?", "it's", "a b", "$x", "~", "#c", "ż*", "{f1,f2}"]))]
            if r.random() < 0.25:
                # a command line far longer than any buffer: thousands of arguments (a glob expanded by the shell, xargs),
                # or a single one just below the kernel's limit of 128 KiB per argument
                if r.random() < 0.5:
                    for k in range(r.choice([1500, 2500, 4000])):
                        extra += [b"--exclude", fse("/no/such dir %d/%s/**" % (k, r.choice(["it's", "a b", "$x", "ż", "pl ain"])))]
                else:
                    extra += [b"--exclude", fse("/no such/" + "".join(r.choice(["x", "y ", "'", "ż", "$"]) for _ in range(r.choice([50000, 60000, 85000]))))]
                chk.count("cli_command_lines_longer_than_64KiB")
            home = os.path.join(d, "home")
            for fmt in ("default", "json"):
                argv = [fse(common.fclones_bin()), b"group", b"-f", fmt.encode()] + extra + roots
                res = common.run(argv, common.pinned_env(home), cwd=troot)
                witness = {"argv": [fsd(a) for a in argv] if len(argv) < 200 else [fsd(a) for a in argv[:40]] + ["... %d arguments" % len(argv)],
                           "cwd": troot, "rc": res.rc, "stderr": res.err_text()[-800:]}
                if res.rc != 0:
                    chk.note_inconclusive("cli group failed: " + res.err_text()[-100:])
                    continue
                if fmt == "default":
                    first = res.out.split(b"\n", 4)
                    line = next((l for l in first if l.startswith(b"# Command: ")), None)
                    if line is None:
                        chk.violation("C17:cli:no-command-line", "report has no '# Command:' line", witness)
                        continue
                    line = line[len(b"# Command: "):]
                    words = bash_words(line, d)
                    witness["command_line"] = fsd(line)
                    witness["bash_words"] = [fsd(w) for w in words] if words is not None else None
                    if words != argv:
                        chk.violation("C17:cli:command-line-not-decoded-by-bash",
                                      "bash decodes the '# Command:' line to %r, real argv was %r" % (witness["bash_words"], witness["argv"]),
                                      witness, nontrivial_sig=("cli", i, fmt))
                        continue
                else:
                    try:
                        rep = reports.parse_json(res.out)
                    except Exception as e:
                        chk.violation("C17:cli:json-unparsable", str(e), witness)
                        continue
                    if rep.header["command"] != argv:
                        witness["header_command"] = [fsd(a) for a in rep.header["command"]]
                        chk.violation("C17:cli:json-command-differs", "JSON header command differs from argv", witness)
                        continue
                # the consumer of the recorded command line: a dedupe command must read the report back
                back = common.run([fse(common.fclones_bin()), b"remove", b"--dry-run"], common.pinned_env(home), cwd=troot, stdin=res.out)
                if back.rc != 0:
                    witness["argv"] = witness["argv"][:40]
                    witness["remove_dry_run"] = {"rc": back.rc, "stderr": back.err_text()[-600:]}
                    chk.violation("C17:cli:recorded-command-not-read-back",
                                  "`remove --dry-run` rejects the %s report of this command line (%d arguments, %d bytes): %s"
                                  % (fmt, len(argv), sum(len(a) + 1 for a in argv), back.err_text()[-200:]), witness,
                                  nontrivial_sig=("cli", i, fmt))
                    continue
                chk.ok(("cli", i, fmt), {"argv": [fsd(a) for a in argv[:40]]} if i < 2 else None)
                chk.count("cli_reports_checked")
    finally:
        scratch.cleanup()


def main(tier, seed, cases=None):
    build.build_harness()
    build.build_rel()
    chk = common.Check("C17", "exploration", tier, seed, RULE,
                       ["bash 5 is the shell oracle", "empty strings are outside the property"])
    j = run_harness(tier, seed)
    if j is None:
        return 2
    items = j["strings"] + j["lists"]
    chk.evaluations = items
    for k in ("alphabet", "max_len", "single_strings", "exhaustive_items", "random_items", "bash_words", "bash_scripts", "split_ok", "path_quotes"):
        chk.extra[k] = j[k]
    chk.extra["bounded_part"] = "all strings of length <= %d over the alphabet + all lists of <=3 one-symbol strings (exhaustive)" % j["max_len"]
    chk.samples = [{"item": s} for s in j["samples"]]
    chk.nontrivial = set(range(items))  # every item is a distinct string/list; nearly all need quoting
    by_sig = {}
    for v in j["violations"]:
        by_sig.setdefault(v["signature"], []).append(v)
    for sig, n in j["signature_counts"].items():
        ex = by_sig.get(sig, [{}])[0]
        chk.violation(sig, "%d items, e.g. input %r: %s" % (n, ex.get("input"), (ex.get("detail") or "")[:300]),
                      {"examples": [{"input": e["input"], "detail": e["detail"][:2000]} for e in by_sig.get(sig, [])], "count": n})
        chk.evaluations -= 1
    cli_cases(chk, seed, cases or (40 if tier == "quick" else 600))
    return chk.finish()


def replay(path):
    with open(path) as f:
        w = json.load(f)
    return main(w["tier"], w["seed"])
