"""C19 - the task/open-file semaphore is safe and live under (a sample of) all interleavings."""
import json
import os
import re
import subprocess
import time

from .. import build, common

RULE = ("/repo/fclones/src/semaphore.rs is #[path]-included verbatim into the crate /verif/miri and driven through a scenario "
        "matrix (threads 2..4 x acquire/release pairs 1..3 x initial/external permits {1,2,0+1,0+2,-1+2,1+1} x guard dropped "
        "by the acquiring or by another thread x bounded spurious notify_all on/off) under Miri's seeded scheduler "
        "(-Zmiri-many-seeds, preemption rates 0.01, 0.03, 0.1; thorough also 0 and 0.005) with monitors: shadow holder counter <= permits, count "
        "invariant read under the semaphore's own lock, final count == initial + released, all acquisitions completed, "
        "Miri's deadlock / data-race / UB detectors; plus a native stress run of the same monitors (2..64 threads). "
        "evaluations = scenario executions; non-trivial = distinct (scenario, event-order fingerprint) pairs, i.e. "
        "distinct interleavings observed")

MIRI_DIR = os.path.join(common.VERIF, "miri")
GUARD = "--cfg fclones_verif --check-cfg=cfg(fclones_verif)"
TRACE = re.compile(r"^TRACE (\S+) ([0-9a-f]{16}) (\d+) maxholders=(-?\d+)")


def miri_env(flags):
    env = dict(os.environ)
    env.update({"RUSTFLAGS": GUARD, "MIRIFLAGS": flags, "CARGO_TARGET_DIR": os.path.join(common.BUILD, "miri"),
                "CARGO_NET_OFFLINE": "true", "RUST_BACKTRACE": "0"})
    return env


def run_miri(mode, rate, seeds, timeout, single_seed=None, filt=None):
    if single_seed is None:
        flags = "-Zmiri-many-seeds=0..%d -Zmiri-preemption-rate=%s" % (seeds, rate)
    else:
        flags = "-Zmiri-seed=%d -Zmiri-preemption-rate=%s" % (single_seed, rate)
    try:
        p = subprocess.run(["cargo", "+nightly", "miri", "run", "--offline", "--", mode] + ([filt] if filt else []), cwd=MIRI_DIR,
                           env=miri_env(flags), stdout=subprocess.PIPE, stderr=subprocess.PIPE, timeout=timeout)
        return p.returncode, p.stdout.decode("utf-8", "replace"), p.stderr.decode("utf-8", "replace"), False
    except subprocess.TimeoutExpired as e:
        return None, (e.stdout or b"").decode("utf-8", "replace"), (e.stderr or b"").decode("utf-8", "replace"), True


def classify(err):
    if "deadlock" in err:
        return "deadlock"
    if "VIOLATION more holders" in err:
        return "more-holders-than-permits"
    if "VIOLATION permits not restored" in err:
        return "permits-not-restored"
    if "VIOLATION count" in err:
        return "count-out-of-range"
    if "VIOLATION" in err:
        return "monitor-assertion"
    if "Data race" in err or "data race" in err:
        return "data-race"
    if "Undefined Behavior" in err:
        return "undefined-behaviour"
    if "panicked" in err:
        return "panic"
    return "miri-error"


def build_native():
    env = dict(os.environ)
    env.update({"RUSTFLAGS": GUARD, "CARGO_TARGET_DIR": os.path.join(common.BUILD, "miri-native"), "CARGO_NET_OFFLINE": "true"})
    p = subprocess.run(["cargo", "build", "--release", "--offline"], cwd=MIRI_DIR, env=env, stdout=subprocess.PIPE,
                       stderr=subprocess.STDOUT)
    if p.returncode != 0:
        print(p.stdout.decode("utf-8", "replace")[-3000:])
        print("BUILD-ERROR miri crate (native) failed")
        return None
    return os.path.join(common.BUILD, "miri-native", "release", "fcv-miri")


def quiescent(pid):
    return common.process_quiescent(pid)


def native_stress(chk, binary, rounds):
    traces = 0
    for r in range(rounds):
        p = subprocess.Popen([binary, "stress", "1"], stdout=subprocess.PIPE, stderr=subprocess.PIPE)
        t0 = time.time()
        while p.poll() is None and time.time() - t0 < 120:
            time.sleep(0.05)
        if p.poll() is None:
            hung = quiescent(p.pid)
            p.kill()
            out, err = p.communicate()
            if hung:
                chk.violation("C19:native:hang", "native stress run hung with all threads asleep (lost wake-up)",
                              {"stdout_tail": out.decode()[-500:]})
            else:
                chk.note_inconclusive("native stress watchdog fired but process was not quiescent")
            continue
        out, err = p.communicate()
        if p.returncode != 0:
            e = err.decode("utf-8", "replace")
            chk.violation("C19:native:%s" % classify(e), "native stress failed: %s" % e[-300:], {"stderr": e[-2000:]})
            continue
        for l in out.decode().splitlines():
            m = TRACE.match(l)
            if m:
                traces += 1
                chk.ok(("native", m.group(1), m.group(2)))
    chk.extra["native_stress_scenarios"] = traces


def in_situ(chk, seed, rounds):
    """(c) The semaphore in its real role: with a low RLIMIT_NOFILE and far more hashing threads than
    descriptors, `group` must finish, must not hit EMFILE, and the number of simultaneously open files of
    the scanned tree (from the interposer's open/close events) must stay within the permit count."""
    import resource
    from .. import gm, reports, shimlog, tree
    build.build_rel()
    build.build_shim()
    scratch = common.Scratch("C19situ")
    try:
        for k in range(rounds):
            r = common.rng_for(seed, "C19situ", k)
            d = scratch.case_dir("ext4")
            troot = os.path.join(d, "t")
            entries = [{"t": "d", "p": "r0"}]
            nfiles = 0
            for c in range(60):
                L = r.choice([5000, 20000, 70000])
                for m in range(r.randrange(2, 6)):
                    entries.append({"t": "f", "p": "r0/c%d_%d" % (c, m), "fam": 1000 + c, "len": L, "flip": [], "mtime": c})
                    nfiles += 1
            tree.materialise({"entries": entries, "roots": ["r0"]}, troot)
            limit = r.choice([96, 128, 200])
            permits = max(limit - 5, 64)
            o = {"hash_fn": "metro", "kind": r.choice(["ssd", "unknown"]), "threads": ["default:%d,%d" % (r.choice([128, 256]), r.choice([64, 256])),
                                                                                    "main:8"]}
            if k % 3 == 2:
                # pool size 0 = "as many threads as cores": the permit counts derived from pool sizes must follow the real size
                o["threads"] = r.choice([["0"], ["default:0,0"], ["default:0,64"], ["default:64,0", "main:0"]])
            log = os.path.join(d, "shim.log")
            # every read of a tree file is delayed so that as many hashing tasks as the pools allow hold a file open
            env = gm.env_for(o, os.path.join(d, "home"), shimlog.shim_env(log, [troot], shimlog.plan(shimlog.rule("read", b"", 0, "delay:15000"))))
            evf = os.path.join(d, "events.jsonl")
            env["FCLONES_VERIF_EVENTS"] = evf  # hook H5: permits of the open-files semaphore when grouping starts and ends
            argv = [common.fclones_bin()] + [a.decode() for a in gm.group_argv(o, ["r0"], "json")]

            def lower():
                resource.setrlimit(resource.RLIMIT_NOFILE, (limit, limit))
            p = subprocess.Popen(argv, env=env, cwd=troot, stdin=subprocess.DEVNULL, stdout=subprocess.PIPE, stderr=subprocess.PIPE,
                                 preexec_fn=lower)
            try:
                out, err = p.communicate(timeout=90)
            except subprocess.TimeoutExpired:
                hung = quiescent(p.pid)
                p.kill()
                p.communicate()
                if hung:
                    chk.violation("C19:in-situ:hang", "group hung with RLIMIT_NOFILE=%d and %s" % (limit, o["threads"]), {"argv": argv})
                else:
                    chk.note_inconclusive("in-situ watchdog fired, process not quiescent")
                continue
            errt = err.decode("utf-8", "replace")
            ev, fired, junk = shimlog.parse(log)
            cur = peak = 0
            for e in ev:
                if e.op == "open" and e.ret >= 0:
                    cur += 1
                    peak = max(peak, cur)
                elif e.op == "close" and e.ret == 0:
                    cur -= 1
            w = {"argv": argv, "rlimit": limit, "permits": permits, "peak_open_tree_files": peak, "files": nfiles, "rc": p.returncode,
                 "stderr": errt[-1500:]}
            if p.returncode != 0 or "Too many open files" in errt or "os error 24" in errt:
                chk.violation("C19:in-situ:too-many-open-files", "group ran out of file descriptors (limit %d, peak %d)" % (limit, peak), w)
                continue
            from .C15 import open_file_permits
            st_, en_ = open_file_permits(evf)
            w["semaphore_permits_at_start_and_end"] = [st_, en_]
            if st_ is not None and st_ != permits:
                chk.violation("C19:in-situ:semaphore-size", "the open-files semaphore starts with %d permits under RLIMIT_NOFILE=%d, "
                              "documented: max(limit - 5, 64) = %d" % (st_, limit, permits), w)
                continue
            if st_ is not None and en_ is not None and en_ != st_:
                chk.violation("C19:in-situ:permits-not-conserved", "the open-files semaphore holds %d permits when grouping ends, "
                              "%d when it starts" % (en_, st_), w)
                continue
            if st_ is not None and en_ is not None:
                chk.count("in_situ_runs_with_permits_conserved")
            if peak > permits:
                chk.violation("C19:in-situ:open-file-budget-exceeded", "%d files of the tree were open at once, budget %d" % (peak, permits), w)
                continue
            try:
                rep = reports.parse_json(out)
            except Exception as e:
                chk.violation("C19:in-situ:report", str(e), w)
                continue
            if sum(len(g["files"]) for g in rep.groups) != nfiles:
                chk.violation("C19:in-situ:files-dropped", "only %d of %d duplicate files were reported" % (sum(len(g["files"]) for g in rep.groups), nfiles), w)
                continue
            chk.ok(("situ", limit, tuple(o["threads"]), peak), {"in_situ": w} if k == 0 else None)
            chk.extra["in_situ_peak_open_files"] = max(chk.extra.get("in_situ_peak_open_files", 0), peak)
            chk.count("in_situ_runs")
    finally:
        scratch.cleanup()


def main(tier, seed, cases=None):
    chk = common.Check("C19", "exploration", tier, seed, RULE,
                       ["Miri's scheduler and std's Mutex/Condvar model", "exploration, not exhaustion, of interleavings",
                        "spurious wake-ups are modelled by a bounded number of notify_all calls through hook H4"])
    mode = "quick" if tier == "quick" else "all"
    seeds = cases or (16 if tier == "quick" else 96)
    rates = ["0.01", "0.03", "0.1"] if tier == "quick" else ["0", "0.005", "0.01", "0.03", "0.1"]
    per_scenario = {}
    import concurrent.futures as cf
    t_budget = 900 if tier == "quick" else 7200
    # the first invocation builds: one seed and a filter that selects no scenario; then the rates run side by side
    run_miri(mode, rates[0], 0, 900, single_seed=0, filt="no-such-scenario")
    results = {}
    with cf.ThreadPoolExecutor(max_workers=3 if tier == "quick" else 2) as ex:
        futs = {r: ex.submit(run_miri, mode, r, seeds, t_budget) for r in rates}
        for r, f in futs.items():
            results[r] = f.result()
    executions = 0
    for rate, (rc, out, err, timed_out) in results.items():
        done = 0
        for l in out.splitlines():
            m = TRACE.match(l)
            if m:
                executions += 1
                per_scenario.setdefault(m.group(1), set()).add(m.group(2))
                chk.ok((m.group(1), m.group(2)))
            elif l.startswith("DONE"):
                done += 1
        chk.count("miri_program_runs", done)
        if timed_out:
            chk.note_inconclusive("miri rate=%s timed out after %ds" % (rate, t_budget))
            continue
        if rc != 0:
            # find the failing seed(s) and replay one of them alone to name the scenario
            m = re.search(r"seed (\d+)", " ".join(l for l in err.splitlines() if "FAIL" in l.upper() or "failing" in l.lower()))
            fseed = int(m.group(1)) if m else None
            kind = classify(err)
            detail = {"rate": rate, "stderr": err[-3000:], "failing_seed": fseed}
            scen = None
            if fseed is not None:
                rc2, out2, err2, to2 = run_miri(mode, rate, 0, 600, single_seed=fseed)
                begins = [l.split()[1] for l in out2.splitlines() if l.startswith("BEGIN")]
                scen = begins[-1] if begins else None
                detail["replay_stderr"] = err2[-3000:]
                detail["scenario"] = scen
                if rc2 != 0:
                    kind = classify(err2)
            chk.violation("C19:miri:%s" % kind, "Miri run (rate %s, seed %s, scenario %s) failed: %s"
                          % (rate, fseed, scen, kind), detail)
    chk.extra["miri_scenario_executions"] = executions
    chk.extra["scenarios"] = len(per_scenario)
    chk.extra["distinct_interleavings"] = sum(len(v) for v in per_scenario.values())
    chk.extra["min_interleavings_per_scenario"] = min((len(v) for v in per_scenario.values()), default=0)
    chk.samples = [{"scenario": k, "interleaving_fingerprints": sorted(v)[:4], "distinct": len(v)}
                   for k, v in list(per_scenario.items())[:4]]
    binary = build_native()
    if binary:
        native_stress(chk, binary, 3 if tier == "quick" else 40)
    in_situ(chk, seed, 3 if tier == "quick" else 30)
    return chk.finish()


def replay(path):
    with open(path) as f:
        w = json.load(f)
    return main(w["tier"], w["seed"])
