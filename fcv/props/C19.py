"""C19 - the task/open-file semaphore is safe and live under (a sample of) all interleavings."""
import json
import os
import re
import subprocess
import time

from .. import build, common

RULE = ("/repo/fclones/src/semaphore.rs is #[path]-included verbatim into the crate /verif/miri and driven through a scenario "
        "matrix (threads 2..4 x acquire/release pairs 1..3 x initial/external permits {1,2,0+1,0+2,-1+2,1+1} x guard dropped "
        "by the acquiring or by another thread x bounded spurious notify_all on/off) under Miri's seeded scheduler "
        "(-Zmiri-many-seeds, preemption rates 0, 0.01, 0.03) with monitors: shadow holder counter <= permits, count "
        "invariant read under the semaphore's own lock, final count == initial + released, all acquisitions completed, "
        "Miri's deadlock / data-race / UB detectors; plus a native stress run of the same monitors (2..64 threads). "
        "evaluations = scenario executions; non-trivial = distinct (scenario, event-order fingerprint) pairs, i.e. "
        "distinct interleavings observed")

MIRI_DIR = os.path.join(common.VERIF, "miri")
GUARD = "--cfg fclones_verif --check-cfg=cfg(fclones_verif)"
TRACE = re.compile(r"^TRACE (\S+) ([0-9a-f]{16}) (\d+) maxholders=(-?\d+)")


def miri_env(flags):
    env = dict(os.environ)
    env.update({"RUSTFLAGS": GUARD, "MIRIFLAGS": flags, "CARGO_TARGET_DIR": os.path.join(common.BUILD, "miri"),
                "CARGO_NET_OFFLINE": "true", "RUST_BACKTRACE": "0"})
    return env


def run_miri(mode, rate, seeds, timeout, single_seed=None):
    if single_seed is None:
        flags = "-Zmiri-many-seeds=0..%d -Zmiri-preemption-rate=%s" % (seeds, rate)
    else:
        flags = "-Zmiri-seed=%d -Zmiri-preemption-rate=%s" % (single_seed, rate)
    try:
        p = subprocess.run(["cargo", "+nightly", "miri", "run", "--offline", "--", mode], cwd=MIRI_DIR,
                           env=miri_env(flags), stdout=subprocess.PIPE, stderr=subprocess.PIPE, timeout=timeout)
        return p.returncode, p.stdout.decode("utf-8", "replace"), p.stderr.decode("utf-8", "replace"), False
    except subprocess.TimeoutExpired as e:
        return None, (e.stdout or b"").decode("utf-8", "replace"), (e.stderr or b"").decode("utf-8", "replace"), True


def classify(err):
    if "deadlock" in err:
        return "deadlock"
    if "VIOLATION more holders" in err:
        return "more-holders-than-permits"
    if "VIOLATION permits not restored" in err:
        return "permits-not-restored"
    if "VIOLATION count" in err:
        return "count-out-of-range"
    if "VIOLATION" in err:
        return "monitor-assertion"
    if "Data race" in err or "data race" in err:
        return "data-race"
    if "Undefined Behavior" in err:
        return "undefined-behaviour"
    if "panicked" in err:
        return "panic"
    return "miri-error"


def build_native():
    env = dict(os.environ)
    env.update({"RUSTFLAGS": GUARD, "CARGO_TARGET_DIR": os.path.join(common.BUILD, "miri-native"), "CARGO_NET_OFFLINE": "true"})
    p = subprocess.run(["cargo", "build", "--release", "--offline"], cwd=MIRI_DIR, env=env, stdout=subprocess.PIPE,
                       stderr=subprocess.STDOUT)
    if p.returncode != 0:
        print(p.stdout.decode("utf-8", "replace")[-3000:])
        print("BUILD-ERROR miri crate (native) failed")
        return None
    return os.path.join(common.BUILD, "miri-native", "release", "fcv-miri")


def quiescent(pid):
    """True if every thread of pid sleeps and consumes no CPU over 5 seconds."""
    def snap():
        out = {}
        try:
            for t in os.listdir("/proc/%d/task" % pid):
                with open("/proc/%d/task/%s/stat" % (pid, t)) as f:
                    parts = f.read().rsplit(")", 1)[1].split()
                out[t] = (parts[0], int(parts[11]) + int(parts[12]))
        except OSError:
            return None
        return out
    a = snap()
    time.sleep(5)
    b = snap()
    if not a or not b or set(a) != set(b):
        return False
    return all(b[t][0] == "S" and a[t][1] == b[t][1] for t in b)


def native_stress(chk, binary, rounds):
    traces = 0
    for r in range(rounds):
        p = subprocess.Popen([binary, "stress", "1"], stdout=subprocess.PIPE, stderr=subprocess.PIPE)
        t0 = time.time()
        while p.poll() is None and time.time() - t0 < 120:
            time.sleep(0.05)
        if p.poll() is None:
            hung = quiescent(p.pid)
            p.kill()
            out, err = p.communicate()
            if hung:
                chk.violation("C19:native:hang", "native stress run hung with all threads asleep (lost wake-up)",
                              {"stdout_tail": out.decode()[-500:]})
            else:
                chk.note_inconclusive("native stress watchdog fired but process was not quiescent")
            continue
        out, err = p.communicate()
        if p.returncode != 0:
            e = err.decode("utf-8", "replace")
            chk.violation("C19:native:%s" % classify(e), "native stress failed: %s" % e[-300:], {"stderr": e[-2000:]})
            continue
        for l in out.decode().splitlines():
            m = TRACE.match(l)
            if m:
                traces += 1
                chk.ok(("native", m.group(1), m.group(2)))
    chk.extra["native_stress_scenarios"] = traces


def main(tier, seed, cases=None):
    chk = common.Check("C19", "exploration", tier, seed, RULE,
                       ["Miri's scheduler and std's Mutex/Condvar model", "exploration, not exhaustion, of interleavings",
                        "spurious wake-ups are modelled by a bounded number of notify_all calls through hook H4"])
    mode = "quick" if tier == "quick" else "all"
    seeds = cases or (8 if tier == "quick" else 96)
    rates = ["0", "0.01", "0.03"]
    per_scenario = {}
    import concurrent.futures as cf
    t_budget = 900 if tier == "quick" else 7200
    # the first invocation builds; run it alone, then the other rates in parallel
    results = {}
    results[rates[0]] = run_miri(mode, rates[0], seeds, t_budget)
    with cf.ThreadPoolExecutor(max_workers=2) as ex:
        futs = {r: ex.submit(run_miri, mode, r, seeds, t_budget) for r in rates[1:]}
        for r, f in futs.items():
            results[r] = f.result()
    executions = 0
    for rate, (rc, out, err, timed_out) in results.items():
        done = 0
        for l in out.splitlines():
            m = TRACE.match(l)
            if m:
                executions += 1
                per_scenario.setdefault(m.group(1), set()).add(m.group(2))
                chk.ok((m.group(1), m.group(2)))
            elif l.startswith("DONE"):
                done += 1
        chk.count("miri_program_runs", done)
        if timed_out:
            chk.note_inconclusive("miri rate=%s timed out after %ds" % (rate, t_budget))
            continue
        if rc != 0:
            # find the failing seed(s) and replay one of them alone to name the scenario
            m = re.search(r"seed (\d+)", " ".join(l for l in err.splitlines() if "FAIL" in l.upper() or "failing" in l.lower()))
            fseed = int(m.group(1)) if m else None
            kind = classify(err)
            detail = {"rate": rate, "stderr": err[-3000:], "failing_seed": fseed}
            scen = None
            if fseed is not None:
                rc2, out2, err2, to2 = run_miri(mode, rate, 0, 600, single_seed=fseed)
                begins = [l.split()[1] for l in out2.splitlines() if l.startswith("BEGIN")]
                scen = begins[-1] if begins else None
                detail["replay_stderr"] = err2[-3000:]
                detail["scenario"] = scen
                if rc2 != 0:
                    kind = classify(err2)
            chk.violation("C19:miri:%s" % kind, "Miri run (rate %s, seed %s, scenario %s) failed: %s"
                          % (rate, fseed, scen, kind), detail)
    chk.extra["miri_scenario_executions"] = executions
    chk.extra["scenarios"] = len(per_scenario)
    chk.extra["distinct_interleavings"] = sum(len(v) for v in per_scenario.values())
    chk.extra["min_interleavings_per_scenario"] = min((len(v) for v in per_scenario.values()), default=0)
    chk.samples = [{"scenario": k, "interleaving_fingerprints": sorted(v)[:4], "distinct": len(v)}
                   for k, v in list(per_scenario.items())[:4]]
    binary = build_native()
    if binary:
        native_stress(chk, binary, 3 if tier == "quick" else 40)
    return chk.finish()


def replay(path):
    with open(path) as f:
        w = json.load(f)
    return main(w["tier"], w["seed"])
