"""statx(2) through ctypes: birth time and nanosecond timestamps (python 3.11 has no st_birthtime)."""
import ctypes
import os

_libc = ctypes.CDLL(None, use_errno=True)


class _Ts(ctypes.Structure):
    _fields_ = [("tv_sec", ctypes.c_int64), ("tv_nsec", ctypes.c_uint32), ("pad", ctypes.c_int32)]


class _Statx(ctypes.Structure):
    _fields_ = [("stx_mask", ctypes.c_uint32), ("stx_blksize", ctypes.c_uint32), ("stx_attributes", ctypes.c_uint64),
                ("stx_nlink", ctypes.c_uint32), ("stx_uid", ctypes.c_uint32), ("stx_gid", ctypes.c_uint32),
                ("stx_mode", ctypes.c_uint16), ("pad1", ctypes.c_uint16), ("stx_ino", ctypes.c_uint64),
                ("stx_size", ctypes.c_uint64), ("stx_blocks", ctypes.c_uint64), ("stx_attributes_mask", ctypes.c_uint64),
                ("stx_atime", _Ts), ("stx_btime", _Ts), ("stx_ctime", _Ts), ("stx_mtime", _Ts),
                ("stx_rdev_major", ctypes.c_uint32), ("stx_rdev_minor", ctypes.c_uint32),
                ("stx_dev_major", ctypes.c_uint32), ("stx_dev_minor", ctypes.c_uint32), ("spare", ctypes.c_uint64 * 14)]


AT_FDCWD = -100
AT_SYMLINK_NOFOLLOW = 0x100
STATX_ALL = 0xFFF
STATX_BTIME = 0x800


def statx(path, follow=True):
    """Returns dict with atime/btime/ctime/mtime in ns (btime None if unavailable), ino, dev, size, mode, nlink."""
    buf = _Statx()
    flags = 0 if follow else AT_SYMLINK_NOFOLLOW
    r = _libc.statx(AT_FDCWD, os.fsencode(path), flags, STATX_ALL, ctypes.byref(buf))
    if r != 0:
        e = ctypes.get_errno()
        raise OSError(e, os.strerror(e), path)

    def ns(t):
        return t.tv_sec * 1_000_000_000 + t.tv_nsec
    return {"atime": ns(buf.stx_atime), "btime": ns(buf.stx_btime) if buf.stx_mask & STATX_BTIME else None,
            "ctime": ns(buf.stx_ctime), "mtime": ns(buf.stx_mtime), "ino": buf.stx_ino,
            "dev": (buf.stx_dev_major, buf.stx_dev_minor), "size": buf.stx_size, "mode": buf.stx_mode,
            "nlink": buf.stx_nlink}
