#!/usr/bin/env python3
"""Entry point: python3 fcv/check.py <Cxx> --tier quick|thorough [--replay file]"""
import argparse
import importlib
import os
import sys

sys.path.insert(0, os.path.dirname(os.path.dirname(os.path.abspath(__file__))))

from fcv import common  # noqa: E402


def main():
    ap = argparse.ArgumentParser()
    ap.add_argument("property")
    ap.add_argument("--tier", default=os.environ.get("VERIF_TIER", "quick"), choices=["quick", "thorough"])
    ap.add_argument("--replay", default=None)
    ap.add_argument("--cases", type=int, default=None, help="override the number of cases (debugging)")
    a = ap.parse_args()
    mod = importlib.import_module("fcv.props.%s" % a.property)
    seed = common.seed_from_env()
    if a.replay:
        rc = mod.replay(a.replay)
    else:
        rc = mod.main(a.tier, seed, a.cases)
    sys.stdout.flush()
    sys.exit(rc)


if __name__ == "__main__":
    main()
