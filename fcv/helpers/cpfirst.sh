#!/bin/sh
# cpfirst.sh IN OUT : copies IN to OUT (a named pipe), opening IN before OUT - a program that cannot read its input
# gives up without ever touching its output
[ $# -lt 2 ] && exit 0
exec dd if="$1" of="$2" bs=65536 2>/dev/null
