#!/bin/sh
# keep3000.sh FILE : rewrites FILE in place, keeping its first 3000 bytes; prints nothing
[ $# -lt 1 ] && exit 0
t=$(mktemp) || exit 1
head -c 3000 "$1" > "$t" && cat "$t" > "$1"
rm -f "$t"
