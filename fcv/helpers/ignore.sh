#!/bin/sh
# ignores its input completely
echo ignored-input
