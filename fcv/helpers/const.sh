#!/bin/sh
cat > /dev/null
echo constant-output
