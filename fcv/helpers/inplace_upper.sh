#!/bin/sh
# inplace_upper.sh FILE : rewrites FILE in place (upper-cases ASCII letters)
[ $# -lt 1 ] && exit 0
t=$(mktemp) || exit 1
tr 'a-z' 'A-Z' < "$1" > "$t" && cat "$t" > "$1"
rm -f "$t"
