#!/bin/sh
# failodd.sh : copies the first 64 bytes of stdin to stdout, then fails (exit 1) when the 65th byte is odd -
# a transform that gives up on some inputs after having produced partial output (grep -v on a file of comments,
# a decompressor on a damaged archive)
head -c 64
b=$(head -c 1 | od -An -tu1 | tr -d ' ')
cat > /dev/null
[ $(( ${b:-0} % 2 )) -eq 0 ]
