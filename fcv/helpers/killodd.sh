#!/bin/sh
# killodd.sh : copies the first 64 bytes of stdin to stdout, then dies from a signal (SIGBUS, as a decoder does on a
# damaged memory-mapped file) when the 65th byte is odd - like failodd.sh, but without an exit code
head -c 64
b=$(head -c 1 | od -An -tu1 | tr -d ' ')
cat > /dev/null
[ $(( ${b:-0} % 2 )) -eq 0 ] || kill -BUS $$
exit 0
