#!/bin/sh
# inplace_bak.sh FILE : rewrites FILE in place (upper-cases ASCII letters) and, like `sed -i.bak` or
# `perl -i.orig`, leaves the previous version next to it as FILE.bak
[ $# -lt 1 ] && exit 0
cp "$1" "$1.bak" || exit 1
tr 'a-z' 'A-Z' < "$1.bak" > "$1"
