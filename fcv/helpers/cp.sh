#!/bin/sh
# cp.sh IN OUT : copies IN to OUT (OUT may be a named pipe)
[ $# -lt 2 ] && exit 0
cat "$1" > "$2"
