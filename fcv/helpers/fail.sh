#!/bin/sh
cat > /dev/null
echo "deliberate failure" >&2
exit 3
