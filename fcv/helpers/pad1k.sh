#!/bin/sh
# writes 1000 zero bytes followed by its standard input
head -c 1000 /dev/zero
cat
