#!/bin/sh
# to_out.sh OUT : copies standard input to OUT (a named pipe made by fclones)
[ $# -lt 1 ] && exit 0
exec cat > "$1"
