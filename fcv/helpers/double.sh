#!/bin/sh
# writes its standard input twice
t=$(mktemp) || exit 1
cat > "$t"
cat "$t" "$t"
rm -f "$t"
