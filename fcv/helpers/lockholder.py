#!/usr/bin/env python3
"""Holds fcntl (POSIX advisory) locks on the files listed on stdin until stdin is closed.

Input: one JSON list of [hex-path, "ex"|"sh", start, length] items on the first line (length 0 = to the end of the
file and beyond, as fcntl defines it; start/length may be omitted = whole file). Prints "ready" once all locks are held."""
import fcntl
import json
import os
import sys

items = json.loads(sys.stdin.readline())
fds = []
for it in items:
    hexpath, mode = it[0], it[1]
    start, length = (it[2], it[3]) if len(it) >= 4 else (0, 0)
    path = bytes.fromhex(hexpath)
    fd = os.open(path, os.O_RDWR if mode == "ex" else os.O_RDONLY)
    fcntl.lockf(fd, fcntl.LOCK_EX if mode == "ex" else fcntl.LOCK_SH, length, start, os.SEEK_SET)
    fds.append(fd)
sys.stdout.write("ready\n")
sys.stdout.flush()
sys.stdin.read()
