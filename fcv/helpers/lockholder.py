#!/usr/bin/env python3
"""Holds fcntl (POSIX advisory) locks on the files listed on stdin until stdin is closed.

Input: one JSON list of [hex-path, "ex"|"sh"] pairs on the first line. Prints "ready" once all locks are held."""
import fcntl
import json
import os
import sys

items = json.loads(sys.stdin.readline())
fds = []
for hexpath, mode in items:
    path = bytes.fromhex(hexpath)
    fd = os.open(path, os.O_RDWR if mode == "ex" else os.O_RDONLY)
    fcntl.lockf(fd, fcntl.LOCK_EX if mode == "ex" else fcntl.LOCK_SH)
    fds.append(fd)
sys.stdout.write("ready\n")
sys.stdout.flush()
sys.stdin.read()
