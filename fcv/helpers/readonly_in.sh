#!/bin/sh
# readonly_in.sh FILE : prints FILE's first 64 bytes, never writes to it
[ $# -lt 1 ] && exit 0
head -c 64 "$1"
