"""The `group` matrix engine: option sampling, command lines, running `fclones group`, and the
reference model of what must be reported (content partition + replica counting)."""
import hashlib
import os
import subprocess

from . import common, reports, tree
from .common import fse

HASH_FNS = ["metro", "xxhash", "blake3", "sha256", "sha512", "sha3-256", "sha3-512"]
KINDS = [None, "ssd", "hdd", "unknown"]
SIZES = [None, 1, 100, 4096, 5000, 65536, 1 << 20]
THREADS = [None, ["1"], ["0"], ["64"], ["main:1"], ["default:1,1"], ["ssd:2,3"], ["hdd:3,2"], ["unknown:2,1"],
           ["main:2", "default:3"], ["ssd:1,1", "hdd:1,1", "unknown:1,1", "main:1"], ["default:16,16"]]

H = common.HELPERS
# (command string, python model of the output given input bytes, uses $IN/$OUT)
TRANSFORMS = {
    "cat": ("cat", lambda b: b),
    "head100": ("head -c 100", lambda b: b[:100]),
    "head5000": ("head -c 5000", lambda b: b[:5000]),
    "tail50": ("tail -c 50", lambda b: b[-50:] if len(b) > 50 else b),
    "double": (H + "/double.sh", lambda b: b + b),
    "const": (H + "/const.sh", lambda b: b"constant-output\n"),
    "pad1k": (H + "/pad1k.sh", lambda b: b"\0" * 1000 + b),
    "in_cat": ("cat $IN", lambda b: b),
    "in_out": (H + "/cp.sh $IN $OUT", lambda b: b),
    "in_head": ("head -c 4096 $IN", lambda b: b[:4096]),
    "in_out_dd": (H + "/cpfirst.sh $IN $OUT", lambda b: b),
    # fails (after 64 bytes of output) on inputs whose 65th byte is odd: such files are left out
    # rewrites its input file and prints nothing: with --in-place the result is the file, without it the (empty) output
    "in_keep3000": (H + "/keep3000.sh $IN", lambda b: b[:3000]),
    "failodd": (H + "/failodd.sh", lambda b: b[:64] if len(b) <= 64 or b[64] % 2 == 0 else None),
    # the same, but the process dies from a signal instead of exiting with a status
    "killodd": (H + "/killodd.sh", lambda b: b[:64] if len(b) <= 64 or b[64] % 2 == 0 else None),
}
UNSAMPLED_TRANSFORMS = {"failodd", "killodd", "in_keep3000"}


def sample_opts(r, allow_transform=True, allow_rf=True, allow_links=True, allow_cache=True):
    o = {
        "hash_fn": r.choice(HASH_FNS),
        "kind": r.choice(KINDS),
        "max_prefix": r.choice(SIZES) if r.random() < 0.4 else None,
        "max_suffix": r.choice(SIZES) if r.random() < 0.4 else None,
        "threads": r.choice(THREADS) if r.random() < 0.5 else None,
        "cache": r.choice([None, None, "cold", "warm"]) if allow_cache else None,
        "transform": None,
        "match_links": allow_links and r.random() < 0.15,
        "rf": None,
        "min0": r.random() < 0.3,
        "fs": "tmpfs" if r.random() < 0.25 else "ext4",
    }
    if allow_transform and r.random() < 0.2:
        o["transform"] = r.choice(sorted(set(TRANSFORMS) - UNSAMPLED_TRANSFORMS))
    if allow_rf and r.random() < 0.4:
        k = r.choice([0, 1, 2, 3])
        o["rf"] = r.choice([("over", k), ("under", max(k, 1)), ("unique", None)])
    return o


def opts_sig(o):
    return (o["hash_fn"], o["kind"], o["max_prefix"], o["max_suffix"], tuple(o["threads"] or ()), o["cache"],
            o["transform"], o["match_links"], o["rf"], o["min0"], o["fs"])


def group_argv(o, roots, fmt="json", extra=()):
    a = [b"group"]
    a += [b"--hash-fn", o["hash_fn"].encode()]
    if o.get("max_prefix") is not None:
        a += [b"--max-prefix-size", str(o["max_prefix"]).encode()]
    if o.get("max_suffix") is not None:
        a += [b"--max-suffix-size", str(o["max_suffix"]).encode()]
    for t in o.get("threads") or ():
        a += [b"--threads", t.encode()]
    if o.get("cache"):
        a += [b"--cache"]
    if o.get("transform"):
        a += [b"--transform", TRANSFORMS[o["transform"]][0].encode()]
    if o.get("skip_content_hash"):
        a += [b"--skip-content-hash"]
    if o.get("no_copy"):
        a += [b"--no-copy"]
    if o.get("in_place"):
        a += [b"--in-place"]
    if o.get("match_links"):
        a += [b"-H"]
    if o.get("symbolic_links"):
        a += [b"-S"]
    if o.get("follow_links"):
        a += [b"-L"]
    if o.get("isolate"):
        a += [b"--isolate"]
    rf = o.get("rf")
    if rf:
        if rf[0] == "over":
            a += [b"--rf-over", str(rf[1]).encode()]
        elif rf[0] == "under":
            a += [b"--rf-under", str(rf[1]).encode()]
        else:
            a += [b"--unique"]
    if o.get("min0"):
        a += [b"--min", b"0"]
    if fmt:
        a += [b"-f", fmt.encode()]
    a += [fse(x) for x in extra]
    a += [fse(x) for x in roots]
    return a


def env_for(o, home, extra=None):
    e = {}
    if o.get("kind"):
        e["FCLONES_VERIF_DISK_KIND"] = o["kind"]
    if extra:
        e.update(extra)
    return common.pinned_env(home, e)


def run_group(o, roots, cwd, home, fmt="json", extra_args=(), extra_env=None, stdin=None, timeout=120,
              binary=None, preload=None):
    env = env_for(o, home, extra_env)
    if preload:
        env["LD_PRELOAD"] = preload
    argv = [fse(binary or common.fclones_bin())] + group_argv(o, roots, fmt, extra_args)
    res = common.run(argv, env, cwd=cwd, stdin=stdin, timeout=timeout)
    return res, argv


# ------------------------------------------------------------------------------------------
# Reference model

def rf_params(o):
    rf = o.get("rf")
    if not rf:
        return ("over", 1)
    if rf[0] == "unique":
        return ("under", 2)
    return rf


def file_key(path, o, cache=None):
    """Content key of a file for the reference partition: (len, sha256) of the bytes the
    grouping is defined on (the transform output when --transform is used)."""
    b = tree.content_token(path)
    if isinstance(b, tuple):
        # a huge sparse file (never used together with a transform)
        return (b[1], "sparse:" + hashlib.sha256(repr(b[2]).encode()).hexdigest())
    if o.get("transform"):
        b = TRANSFORMS[o["transform"]][1](b)
        if b is None:
            return None  # the transform fails on this file: it is left out
    return (len(b), hashlib.sha256(b).hexdigest())


def replica_count(members, o, roots_abs=None):
    """members: list of (path, fileid). The documented counting rule (README 'Handling links')."""
    if o.get("isolate") and roots_abs:
        seen = set()
        for p, fid in members:
            idx = None
            for i, rt in enumerate(roots_abs):
                if p == rt or p.startswith(rt.rstrip(b"/") + b"/"):
                    idx = i
                    break
            if idx is None:
                seen.add(("p", p) if o.get("match_links") else ("id", fid))
            else:
                seen.add(("r", idx))
        return len(seen)
    if o.get("match_links"):
        return len(members)
    return len({fid for _, fid in members})


def expected_partition(files, o, roots_abs=None):
    """files: dict path(bytes) -> {"key":..., "id":...}. Returns set of frozensets of paths that
    must be reported."""
    classes = {}
    for p, rec in files.items():
        if rec["key"] is not None:
            classes.setdefault(rec["key"], []).append((p, rec["id"]))
    mode, k = rf_params(o)
    out = set()
    for key, members in classes.items():
        c = replica_count(members, o, roots_abs)
        rep = c > k if mode == "over" else c < k
        if rep:
            out.add(frozenset(p for p, _ in members))
    return out


def scan_plain(roots_abs, min_size=1, symbolic_links=False):
    """Reference list of files a plain scan selects under the given absolute roots: regular
    files (no hidden entries, no ignore files expected in the tree). path -> id."""
    out = {}
    for rt in roots_abs:
        stack = [rt]
        if not os.path.isdir(rt):
            stack = []
            _add(out, rt, min_size, symbolic_links)
        while stack:
            d = stack.pop()
            for e in os.scandir(d):
                if e.is_dir(follow_symlinks=False):
                    stack.append(e.path)
                else:
                    _add(out, e.path, min_size, symbolic_links)
    return out


def _add(out, p, min_size, symbolic_links):
    st = os.lstat(p)
    import stat as _s
    if _s.S_ISREG(st.st_mode):
        if st.st_size >= min_size:
            out[p] = (st.st_dev, st.st_ino)
    elif _s.S_ISLNK(st.st_mode) and symbolic_links:
        try:
            t = os.stat(p)
        except OSError:
            return
        if _s.S_ISREG(t.st_mode) and t.st_size >= min_size:
            out[p] = (t.st_dev, t.st_ino)


def describe_partition_diff(expected, got):
    """Human-readable difference between two sets of frozensets of paths."""
    miss = [sorted(x) for x in expected - got]
    extra = [sorted(x) for x in got - expected]
    return {"expected_not_reported": miss[:5], "reported_not_expected": extra[:5],
            "n_missing": len(miss), "n_extra": len(extra)}
