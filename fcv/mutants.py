#!/usr/bin/env python3
"""Self-validation: applies each seeded change under /verif/seeded/<id>/patch.diff to /repo, runs the
checks named in its meta.json (default: the check of the property it breaks), and undoes the change.

usage: python3 fcv/mutants.py [id ...] [--tier quick|thorough] [--all-checks]
Never commits anything in /repo; refuses to run if /repo has uncommitted changes."""
import json
import os
import subprocess
import sys
import time

VERIF = os.path.dirname(os.path.dirname(os.path.abspath(__file__)))
SEEDED = os.path.join(VERIF, "seeded")
ALL = ["C%02d" % i for i in range(1, 21)]


def sh(argv, **kw):
    return subprocess.run(argv, stdout=subprocess.PIPE, stderr=subprocess.STDOUT, **kw)


def main():
    args = [a for a in sys.argv[1:] if not a.startswith("--")]
    tier = "quick"
    if "--tier" in sys.argv:
        tier = sys.argv[sys.argv.index("--tier") + 1]
        args = [a for a in args if a != tier]
    ids = args or sorted(os.listdir(SEEDED))
    if sh(["git", "-C", "/repo", "status", "--porcelain", "--untracked-files=no"]).stdout.strip():
        print("refusing: /repo has uncommitted changes")
        return 2
    results = {}
    for mid in ids:
        d = os.path.join(SEEDED, mid)
        patch = os.path.join(d, "patch.diff")
        if not os.path.exists(patch):
            continue
        with open(os.path.join(d, "meta.json")) as f:
            meta = json.load(f)
        checks = ALL if "--all-checks" in sys.argv else meta.get("checks") or [meta["property"]]
        r = sh(["git", "-C", "/repo", "apply", patch])
        if r.returncode != 0:
            print("%s: patch does not apply: %s" % (mid, r.stdout.decode()[-300:]))
            results[mid] = {"applied": False}
            continue
        try:
            res = {}
            for c in checks:
                t0 = time.time()
                p = sh([sys.executable, os.path.join(VERIF, "fcv", "check.py"), c, "--tier", tier], cwd=VERIF,
                       env=dict(os.environ, VERIF_SEED=os.environ.get("VERIF_SEED", "1")))
                out = p.stdout.decode("utf-8", "replace")
                sigs = sorted({l.split("signature:")[1].strip() for l in out.splitlines() if "signature:" in l})
                res[c] = {"exit": p.returncode, "violation_lines": out.count("VIOLATION property="), "signatures": sigs[:6],
                          "seconds": round(time.time() - t0, 1)}
                print("%s -> %s: exit %d, %d VIOLATION lines %s (%.0fs)" % (mid, c, p.returncode, res[c]["violation_lines"], sigs[:3], time.time() - t0))
                sys.stdout.flush()
            results[mid] = {"applied": True, "checks": res, "caught": any(v["exit"] == 1 for v in res.values())}
            _save(tier, {mid: results[mid]})
        finally:
            sh(["git", "-C", "/repo", "checkout", "--", "."])
    # evidence files were rewritten by runs on mutated code: restore a clean state by rerunning nothing here;
    # the caller reruns the affected checks on the unchanged tree.
    _save(tier, results)
    print("caught: %s" % {k: v.get("caught") for k, v in results.items()})
    return 0


def _save(tier, results):
    """Merges results into RESULTS-<tier>.json (after every change, so that a long run can be stopped at any time)."""
    out = os.path.join(SEEDED, "RESULTS-%s.json" % tier)
    prev = {}
    if os.path.exists(out):
        with open(out) as f:
            prev = json.load(f)
    prev.update(results)
    with open(out, "w") as f:
        json.dump(prev, f, indent=1, sort_keys=True)


if __name__ == "__main__":
    sys.exit(main())
