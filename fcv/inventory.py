"""Inventory of a directory tree: lstat + content digest of every entry (bytes paths)."""
import hashlib
import os
import re
import stat

TEMP_RE = re.compile(rb"\.[A-Za-z0-9]{24}$")


def sha(path):
    h = hashlib.sha256()
    with open(path, "rb") as f:
        while True:
            b = f.read(1 << 20)
            if not b:
                break
            h.update(b)
    return h.hexdigest()


def take(root, digest=True):
    """Returns dict: abs path (bytes) -> record dict. The root itself is not included."""
    root = os.fsencode(root)
    out = {}
    stack = [root]
    while stack:
        d = stack.pop()
        try:
            it = list(os.scandir(d))
        except OSError:
            continue
        for e in it:
            p = e.path
            st = os.lstat(p)
            rec = {"dev": st.st_dev, "ino": st.st_ino, "nlink": st.st_nlink, "size": st.st_size,
                   "mtime_ns": st.st_mtime_ns, "mode": st.st_mode}
            if stat.S_ISDIR(st.st_mode):
                rec["type"] = "d"
                stack.append(p)
            elif stat.S_ISLNK(st.st_mode):
                rec["type"] = "l"
                rec["target"] = os.readlink(p)
                try:
                    ts = os.stat(p)
                    rec["tid"] = (ts.st_dev, ts.st_ino)
                    rec["tsha"] = sha(p) if digest and stat.S_ISREG(ts.st_mode) else None
                except OSError:
                    rec["tid"] = None
                    rec["tsha"] = None
            elif stat.S_ISREG(st.st_mode):
                rec["type"] = "f"
                if digest:
                    rec["sha"] = sha(p)
            elif stat.S_ISFIFO(st.st_mode):
                rec["type"] = "fifo"
            else:
                rec["type"] = "o"
            out[p] = rec
    return out


def same_entry(a, b, check_inode=True, check_mtime=True):
    """True if two records describe an untouched entry."""
    if a["type"] != b["type"]:
        return False
    if a["type"] == "f":
        if a["size"] != b["size"] or a.get("sha") != b.get("sha"):
            return False
        if check_mtime and a["mtime_ns"] != b["mtime_ns"]:
            return False
        if a["mode"] != b["mode"]:
            return False
    if a["type"] == "l" and a["target"] != b["target"]:
        return False
    if check_inode and (a["ino"], a["dev"]) != (b["ino"], b["dev"]):
        return False
    return True


def diff(before, after, ignore_dir_mtime=True, check_inode=True):
    """Returns (removed, added, changed) lists of paths."""
    removed = [p for p in before if p not in after]
    added = [p for p in after if p not in before]
    changed = []
    for p, a in before.items():
        b = after.get(p)
        if b is None:
            continue
        if a["type"] == "d" and b["type"] == "d":
            if check_inode and (a["ino"], a["dev"]) != (b["ino"], b["dev"]):
                changed.append(p)
            continue
        if not same_entry(a, b, check_inode=check_inode):
            changed.append(p)
    return sorted(removed), sorted(added), sorted(changed)


def digests(inv):
    """Set of content digests held by regular files."""
    return {r["sha"] for r in inv.values() if r["type"] == "f"}


def is_temp_sibling(path, of=None):
    """True if path looks like fclones' temp name `<of>.<24 alnum>` (any original if of is None)."""
    m = TEMP_RE.search(path)
    if not m:
        return False
    if of is not None:
        return path[:m.start()] == of
    return True


def hardlink_partition(inv):
    """Partition of regular-file paths by inode: frozenset of frozensets."""
    by = {}
    for p, r in inv.items():
        if r["type"] == "f":
            by.setdefault((r["dev"], r["ino"]), set()).add(p)
    return frozenset(frozenset(v) for v in by.values())
