#!/usr/bin/env python3
"""Fills the commit hashes of the 'fixed' entries of known_findings.json from /repo's history
(entries name the commit by subject; the hash is looked up so that a rebase does not stale them)."""
import json
import os
import subprocess

VERIF = os.path.dirname(os.path.dirname(os.path.abspath(__file__)))
log = subprocess.run(["git", "-C", "/repo", "log", "--format=%H %s"], stdout=subprocess.PIPE).stdout.decode().splitlines()
by_subject = {l.split(" ", 1)[1]: l.split(" ", 1)[0] for l in log}
p = os.path.join(VERIF, "known_findings.json")
k = json.load(open(p))
missing = []


def _summ(e):
    """summary = 'fixed: property=<id> <commit> <what failed>'"""
    if "what" not in e:
        pre = "fixed: property=%s " % e["property"]
        e["what"] = e["summary"][len(pre):] if e["summary"].startswith(pre) else e["summary"]
    e["summary"] = "fixed: property=%s %s %s" % (e["property"], e["commit"], e["what"])


for e in k["findings"]:
    if e.get("fixed"):
        subj = e.get("commit_subject") or e["commit"]
        if subj in by_subject:
            e["commit_subject"] = subj
            e["commit"] = by_subject[subj][:12]
            _summ(e)
        else:
            cand = [s for s in by_subject if s.startswith(subj[:40])]
            if cand:
                e["commit_subject"] = cand[0]
                e["commit"] = by_subject[cand[0]][:12]
                _summ(e)
            else:
                missing.append(subj)
json.dump(k, open(p, "w"), indent=1)
print("fixed entries:", sum(1 for e in k["findings"] if e.get("fixed")), "unresolved:", missing)
