"""Dedupe pipeline engine: `fclones group ... > R; fclones <op> ... < R` on a real tree, the
reference model of which paths must be dropped, a bash-based script decoder and observers."""
import os
import re
import subprocess
import time

from . import common, globref, gm, inventory, reports, shimlog, statx
from .common import fsd, fse

OPS = ["remove", "link", "softlink", "dedupe", "move"]

PRIORITIES = ["top", "bottom", "newest", "oldest", "most-recently-modified", "least-recently-modified",
              "most-recently-accessed", "least-recently-accessed", "most-recent-status-change",
              "least-recent-status-change", "most-nested", "least-nested"]


def dedupe_argv(op, cfg, target=None):
    a = {"remove": [b"remove"], "link": [b"link"], "softlink": [b"link", b"--soft"], "dedupe": [b"dedupe"],
         "move": [b"move"]}[op][:]
    if cfg.get("dry_run"):
        a.append(b"--dry-run")
    if cfg.get("n") is not None:
        a += [cfg.get("n_flag", "-n").encode(), str(cfg["n"]).encode()]
    for p in cfg.get("priority") or ():
        a += [b"--priority", p.encode()]
    for k, flag in (("name", b"--name"), ("path", b"--path"), ("keep_name", b"--keep-name"), ("keep_path", b"--keep-path")):
        for pat in cfg.get(k) or ():
            a += [flag, fse(pat)]
    for rt in cfg.get("isolate") or ():
        a += [b"--isolate", fse(rt)]
    if cfg.get("match_links"):
        a.append(b"-H")
    if cfg.get("no_lock"):
        a.append(b"--no-lock")
    if cfg.get("no_check_size"):
        a.append(b"--no-check-size")
    if cfg.get("output"):
        a += [b"-o", fse(cfg["output"])]
    if op == "move":
        a.append(fse(target))
    return a


def run_dedupe(op, cfg, report_bytes, cwd, home, target=None, extra_env=None, timeout=120, threads=None, binary=None):
    env = common.pinned_env(home, extra_env)
    if threads is not None:
        env["RAYON_NUM_THREADS"] = str(threads)
    argv = [fse(binary or common.fclones_bin())] + dedupe_argv(op, cfg, target)
    return common.run(argv, env, cwd=cwd, stdin=report_bytes, timeout=timeout), argv


# ------------------------------------------------------------------------------------------
# Metadata snapshot used by the model (taken right before the dedupe run)

def snapshot(paths):
    """path(bytes) -> statx dict (following symlinks) or None if the path cannot be stat'ed."""
    out = {}
    for p in paths:
        try:
            s = statx.statx(p, follow=True)
            s["lmode"] = statx.statx(p, follow=False)["mode"]
            out[p] = s
        except OSError:
            out[p] = None
    return out


def depth(p):
    return len([c for c in p.split(b"/") if c])


def under(root, p):
    root = root.rstrip(b"/")
    return p == root or p.startswith(root + b"/")


def name_str(p):
    return os.path.basename(p).decode("utf-8", "replace")


def path_str(p):
    return p.decode("utf-8", "replace")


def _matches_any(pats, s):
    return any(globref.matches(fsd_pat(g), s) for g in pats)


def fsd_pat(g):
    return g if isinstance(g, str) else g.decode("utf-8", "replace")


def expected_drops(group_files, snap, eff, agg="doc"):
    """The documented partition of one report group into kept and dropped paths.

    group_files: ordered list of paths of a report group (already restricted to usable files).
    snap: path -> statx dict. eff: effective settings {n, priority, name, path, keep_name,
    keep_path, isolate(list of abs roots), match_links}.
    agg: 'doc' = sub-group time keys as in the doc comments (earliest creation, latest others);
         'alt' = the opposite choice (used to detect cases where the choice matters).
    Returns (dropped list, kept list, subgroups)."""
    roots = [r for r in (eff.get("isolate") or [])]
    sub = []
    root_groups = [[] for _ in roots]
    id_groups = {}
    singles_and_ids = []
    for p in group_files:
        idx = next((i for i, r in enumerate(roots) if under(r, p)), None)
        if idx is not None:
            root_groups[idx].append(p)
        elif not eff.get("match_links"):
            fid = (snap[p]["dev"], snap[p]["ino"])
            if fid not in id_groups:
                id_groups[fid] = []
            id_groups[fid].append(p)
        else:
            root_groups.append([p])
    sub = [g for g in root_groups if g] + [g for g in id_groups.values() if g]
    n_sub = len(sub)

    def tkey(g, field, pick_doc, pick_alt):
        vals = [snap[p][field] for p in g]
        return (pick_doc if agg == "doc" else pick_alt)(vals)

    def keyfun(prio):
        if prio == "top":
            return lambda i, g: -i
        if prio == "bottom":
            return lambda i, g: i
        if prio == "newest":
            return lambda i, g: tkey(g, "btime", min, max)
        if prio == "oldest":
            return lambda i, g: -tkey(g, "btime", min, max)
        if prio == "most-recently-modified":
            return lambda i, g: tkey(g, "mtime", max, min)
        if prio == "least-recently-modified":
            return lambda i, g: -tkey(g, "mtime", max, min)
        if prio == "most-recently-accessed":
            return lambda i, g: tkey(g, "atime", max, min)
        if prio == "least-recently-accessed":
            return lambda i, g: -tkey(g, "atime", max, min)
        if prio == "most-recent-status-change":
            return lambda i, g: tkey(g, "ctime", max, min)
        if prio == "least-recent-status-change":
            return lambda i, g: -tkey(g, "ctime", max, min)
        if prio == "most-nested":
            # --help: "higher priority to the files nested deeper": a replica of several paths ranks by its deepest path
            # (no alternative reading: the time keys are the only ones whose aggregation the documentation leaves open)
            return lambda i, g: max(depth(p) for p in g)
        if prio == "least-nested":
            return lambda i, g: -min(depth(p) for p in g)
        raise ValueError(prio)

    keep_n = eff.get("keep_name") or []
    keep_p = eff.get("keep_path") or []
    name_p = eff.get("name") or []
    path_p = eff.get("path") or []

    def should_keep(g):
        return any(_matches_any(keep_n, name_str(p)) or _matches_any(keep_p, path_str(p)) for p in g)

    def may_drop(g):
        if not name_p and not path_p:
            return True
        return all(_matches_any(name_p, name_str(p)) or _matches_any(path_p, path_str(p)) for p in g)

    indexed = list(enumerate(sub))
    funs = [keyfun(p) for p in (eff.get("priority") or [])]
    indexed.sort(key=lambda ig: tuple(f(ig[0], ig[1]) for f in funs) + (ig[0],))
    retained = [g for i, g in indexed if should_keep(g) or not may_drop(g)]
    droppable = [g for i, g in indexed if not (should_keep(g) or not may_drop(g))]
    n = max(1, eff.get("n") or 1)
    need = max(0, n - len(retained))
    kept_extra = droppable[:need]
    dropped = droppable[need:]
    return ([p for g in dropped for p in g], [p for g in retained + kept_extra for p in g], sub)


# ------------------------------------------------------------------------------------------
# Decoding a dry-run script with bash itself

BASH_PRELUDE = r"""
rm() { printf '%s\0' rm "$@"; printf '\0'; }
mv() { printf '%s\0' mv "$@"; printf '\0'; }
ln() { printf '%s\0' ln "$@"; printf '\0'; }
cp() { printf '%s\0' cp "$@"; printf '\0'; }
"""


def decode_script(script_bytes, tmpdir):
    """Returns list of commands, each a list of bytes words (first = rm|mv|ln|cp), decoded by bash."""
    os.makedirs(tmpdir, exist_ok=True)
    sp = os.path.join(tmpdir, "decode-%d-%f.sh" % (os.getpid(), time.time()))
    with open(sp, "wb") as f:
        f.write(BASH_PRELUDE.encode() + script_bytes)
    env = {"PATH": "/nonexistent", "HOME": "/nonexistent-fcv", "LC_ALL": "C"}
    p = subprocess.run(["/bin/bash", "--norc", "--noprofile", sp], env=env, stdout=subprocess.PIPE,
                       stderr=subprocess.PIPE, cwd=tmpdir, timeout=60)
    os.unlink(sp)
    out = p.stdout
    cmds = []
    if out:
        if not out.endswith(b"\0\0"):
            raise ValueError("bash decode: unterminated output; stderr=%r" % p.stderr[-300:])
        for rec in out[:-2].split(b"\0\0"):
            cmds.append(rec.split(b"\0"))
    return cmds, p.returncode, p.stderr


TEMP_SUFFIX = re.compile(rb"\.[A-Za-z0-9]{24}$")


def strip_temp(p):
    return TEMP_SUFFIX.sub(b"", p)


def script_ops(cmds):
    """Folds decoded shell commands into logical operations [(kind, path, other)], in order.
    kinds: remove(path) hardlink(path,target) softlink(path,target) reflink(path,target) move(path,target)."""
    ops = []
    i = 0
    while i < len(cmds):
        c = cmds[i]
        if c[0] == b"rm" and len(c) == 2:
            ops.append(("remove", c[1], None))
            i += 1
        elif c[0] == b"mv" and len(c) == 3 and i + 2 < len(cmds) and TEMP_SUFFIX.search(c[2]) and strip_temp(c[2]) == c[1]:
            mid, last = cmds[i + 1], cmds[i + 2]
            if last != [b"rm", c[2]]:
                raise ValueError("temp file %r not removed by the third command %r" % (c[2], last))
            if mid[0] == b"ln" and len(mid) == 4 and mid[1] == b"-s" and mid[3] == c[1]:
                ops.append(("softlink", c[1], mid[2]))
            elif mid[0] == b"ln" and len(mid) == 3 and mid[2] == c[1]:
                ops.append(("hardlink", c[1], mid[1]))
            elif mid[0] == b"cp" and len(mid) == 4 and mid[1] == b"--reflink=always" and mid[3] == c[1]:
                ops.append(("reflink", c[1], mid[2]))
            else:
                raise ValueError("unexpected middle command %r" % (mid,))
            i += 3
        elif c[0] == b"mv" and len(c) == 3:
            ops.append(("move", c[1], c[2]))
            i += 1
        elif c[0] == b"cp" and len(c) == 3 and i + 1 < len(cmds) and cmds[i + 1] == [b"rm", c[1]]:
            ops.append(("move", c[1], c[2]))
            i += 2
        else:
            raise ValueError("unexpected command %r" % (c,))
    return ops


def log_ops(events, op):
    """Logical operations reconstructed from the shim log of a real run: [(kind, path, other)]
    in order of completion. Only successful calls count."""
    ops = []
    for e in events:
        if e.ret < 0 or e.cls != "MUT":
            continue
        if op == "remove" and e.op == "unlink":
            ops.append(("remove", e.p1, None))
        elif op == "link" and e.op == "link":
            ops.append(("hardlink", e.p2, e.p1))
        elif op == "softlink" and e.op == "symlink":
            ops.append(("softlink", e.p1, e.p2))
        elif op == "dedupe" and e.op == "ficlone" and not TEMP_SUFFIX.search(e.p1):
            ops.append(("reflink", e.p1, e.p2))
        elif op == "move" and e.op == "rename":
            ops.append(("move", e.p1, e.p2))
        elif op == "move" and e.op == "unlink":
            ops.append(("move-unlink", e.p1, None))
    return ops


SUMMARY_RE = re.compile(r"(Processed|Would process) (\d+) files and (?:reclaimed|reclaim) (up to )?(.*?) space")


def summary(err_text):
    m = SUMMARY_RE.search(err_text)
    if not m:
        return None
    return {"count": int(m.group(2)), "space": m.group(4)}
