"""Independent parsers for fclones' report formats (text, JSON, CSV, fdupes) + STFU-8 codec.

Nothing here shares code with fclones. Paths are returned as bytes."""
import csv
import io
import json
import re


class ReportError(Exception):
    pass


def stfu8_decode(s):
    """str (as decoded from UTF-8) -> bytes."""
    out = bytearray()
    i = 0
    n = len(s)
    while i < n:
        c = s[i]
        if c != "\\":
            out += c.encode("utf-8", "surrogatepass")
            i += 1
            continue
        if i + 1 >= n:
            raise ReportError("dangling backslash in %r" % s)
        e = s[i + 1]
        if e == "\\":
            out.append(0x5C)
            i += 2
        elif e == "t":
            out.append(9)
            i += 2
        elif e == "n":
            out.append(10)
            i += 2
        elif e == "r":
            out.append(13)
            i += 2
        elif e == "x":
            h = s[i + 2:i + 4]
            if len(h) != 2 or not re.fullmatch("[0-9a-fA-F]{2}", h):
                raise ReportError("bad \\x escape in %r" % s)
            out.append(int(h, 16))
            i += 4
        elif e == "u":
            h = s[i + 2:i + 8]
            if len(h) != 6 or not re.fullmatch("[0-9a-fA-F]{6}", h):
                raise ReportError("bad \\u escape in %r" % s)
            out += chr(int(h, 16)).encode("utf-8", "surrogatepass")
            i += 8
        else:
            raise ReportError("unknown escape \\%s in %r" % (e, s))
    return bytes(out)


def stfu8_encode(b):
    """bytes -> str, the way the stfu8 crate's encode_u8 does it (for building reports by hand)."""
    out = []
    i = 0
    n = len(b)
    while i < n:
        c = b[i]
        if c == 0x5C:
            out.append("\\\\")
            i += 1
        elif 0x20 <= c <= 0x7E:
            out.append(chr(c))
            i += 1
        elif c < 0x80:
            out.append({9: "\\t", 10: "\\n", 13: "\\r"}.get(c, "\\x%02X" % c))
            i += 1
        else:
            # try to decode one valid UTF-8 scalar (no surrogates, no overlongs)
            width = 2 if 0xC2 <= c <= 0xDF else 3 if 0xE0 <= c <= 0xEF else 4 if 0xF0 <= c <= 0xF4 else 0
            ok = False
            if width and i + width <= n:
                try:
                    ch = b[i:i + width].decode("utf-8")
                    ok = len(ch) == 1
                except UnicodeDecodeError:
                    ok = False
            if ok:
                out.append(ch)
                i += width
            else:
                out.append("\\x%02X" % c)
                i += 1
    return "".join(out)


GROUP_RE = re.compile(r"^([0-9a-f]+), ([0-9]+) B \(([^)]*)\) \* ([0-9]+):$")


class Report:
    def __init__(self):
        self.header = {}
        self.groups = []  # list of {"hash": str, "len": int, "count": int|None, "files": [bytes]}
        self.format = None

    def path_sets(self):
        return [frozenset(g["files"]) for g in self.groups]

    def partition(self):
        return frozenset(frozenset(g["files"]) for g in self.groups)


def parse_text(data):
    """Parses the default text report. `data` is bytes. Strict: anything unexpected raises."""
    text = data.decode("utf-8")  # the report is always valid UTF-8 (STFU-8)
    lines = text.split("\n")
    if lines and lines[-1] == "":
        lines.pop()
    else:
        raise ReportError("report does not end with a newline")
    rep = Report()
    rep.format = "text"
    i = 0
    hdr = {}
    while i < len(lines) and lines[i].startswith("#"):
        l = lines[i]
        m = re.match(r"^# Report by fclones (\S+)$", l)
        if m:
            hdr["version"] = m.group(1)
        m = re.match(r"^# Timestamp: (.*)$", l)
        if m:
            hdr["timestamp"] = m.group(1)
        m = re.match(r"^# Command: (.*)$", l)
        if m:
            hdr["command_line"] = m.group(1)
        m = re.match(r"^# Base dir: (.*)$", l)
        if m:
            hdr["base_dir"] = stfu8_decode(m.group(1))
        m = re.match(r"^# Total: ([0-9]+) B \([^)]*\) in ([0-9]+) files in ([0-9]+) groups$", l)
        if m:
            hdr["total_file_size"] = int(m.group(1))
            hdr["total_file_count"] = int(m.group(2))
            hdr["group_count"] = int(m.group(3))
        m = re.match(r"^# Redundant: ([0-9]+) B \([^)]*\) in ([0-9]+) files$", l)
        if m:
            hdr["redundant_file_size"] = int(m.group(1))
            hdr["redundant_file_count"] = int(m.group(2))
        m = re.match(r"^# Missing: ([0-9]+) B \([^)]*\) in ([0-9]+) files$", l)
        if m:
            hdr["missing_file_size"] = int(m.group(1))
            hdr["missing_file_count"] = int(m.group(2))
        i += 1
    rep.header = hdr
    while i < len(lines):
        m = GROUP_RE.match(lines[i])
        if not m:
            raise ReportError("malformed group header: %r" % lines[i])
        g = {"hash": m.group(1), "len": int(m.group(2)), "count": int(m.group(4)), "files": [],
             "human": m.group(3)}
        i += 1
        while i < len(lines) and lines[i].startswith("    "):
            g["files"].append(stfu8_decode(lines[i][4:]))
            i += 1
        rep.groups.append(g)
    return rep


def parse_json(data):
    try:
        j = json.loads(data.decode("utf-8"))
    except (ValueError, UnicodeDecodeError) as e:
        raise ReportError("bad json: %s" % e)
    rep = Report()
    rep.format = "json"
    h = j["header"]
    hdr = {"version": h["version"], "timestamp": h["timestamp"],
           "command": [stfu8_decode(a) for a in h["command"]],
           "base_dir": stfu8_decode(h["base_dir"])}
    if h.get("stats"):
        hdr.update(h["stats"])
    rep.header = hdr
    for g in j["groups"]:
        rep.groups.append({"hash": g["file_hash"], "len": g["file_len"], "count": None,
                           "files": [stfu8_decode(f) for f in g["files"]]})
    return rep


def parse_csv(data):
    rep = Report()
    rep.format = "csv"
    rows = list(csv.reader(io.StringIO(data.decode("utf-8"), newline="")))
    if not rows or rows[0] != ["size", "hash", "count", "files"]:
        raise ReportError("bad csv header: %r" % (rows[:1],))
    for row in rows[1:]:
        rep.groups.append({"hash": row[1], "len": int(row[0]), "count": int(row[2]),
                           "files": [stfu8_decode(f) for f in row[3:]]})
    return rep


def parse_fdupes(data):
    rep = Report()
    rep.format = "fdupes"
    text = data.decode("utf-8")
    cur = []
    for l in text.split("\n"):
        if l == "":
            if cur:
                rep.groups.append({"hash": None, "len": None, "count": None, "files": cur})
                cur = []
        else:
            cur.append(stfu8_decode(l))
    if cur:
        raise ReportError("fdupes output does not end with an empty line")
    return rep


def parse(data, fmt):
    return {"default": parse_text, "text": parse_text, "json": parse_json, "csv": parse_csv,
            "fdupes": parse_fdupes}[fmt](data)


def body(rep):
    """The report body as a comparable value: ordered list of (len, hash, ordered paths)."""
    return [(g["len"], g["hash"], tuple(g["files"])) for g in rep.groups]
