#!/usr/bin/env python3
"""Regenerates /verif/MANIFEST.json from the table below (single source of truth)."""
import json
import os
import subprocess

VERIF = os.path.dirname(os.path.dirname(os.path.abspath(__file__)))

COMMON_NOTE = ("Held on the executions explored, not for all inputs. Trusted base: Linux ext4/tmpfs semantics, "
               "Python os/hashlib, the reference models under fcv/ (transcribed from README/--help), the hooks "
               "behind --cfg fclones_verif (H1 disk-kind pin, H3 sync points/jitter/events, H5 semaphore permits at the start/end of grouping) which only add code. ")

CHECKS = {
    "C01": dict(
        category="exploration",
        technique="runtime monitoring: real `fclones group` runs on generated trees, byte-comparison oracle",
        text="Every member of every reported group is read back and byte-compared (transform output compared "
             "through an independent model of the transform) over seeded trees whose content classes are "
             "surrounded by same-length decoys differing in one byte at stage-threshold offsets, across 7 hash "
             "functions, cache cold/warm, pinned SSD/HDD/unknown disk kind, prefix/suffix sizes, transforms that "
             "shrink/keep/expand, thread pools, ext4 and tmpfs, and (8% of the trees) two tmpfs file systems mounted for the case "
             "whose files share inode numbers; a quarter of the runs take their (overlapping, repeated, re-spelled) input paths from "
             "--stdin; 6% pin SSD with prefix and suffix as long as whole files; 3-4% are trees of sparse files of 9 MiB .. 100 MiB and of 2 GiB .. just over 4 GiB "
             "(holes with a few marked bytes, decoys differing in one byte next to 2^31, 2^32, the 64 MiB suffix threshold of rotational devices and the "
             "prefix/suffix boundaries; compared through SEEK_DATA). Exploration is the right level: the property "
             "quantifies over inputs x configurations and the oracle is exact on each execution.",
        note=COMMON_NOTE + "Hash collisions would be reported as violations. Randomly filled files are <= 300 KB; beyond that only sparse files "
             "(zeros except a few bytes) are used, up to 4 GiB + 70000 bytes.",
        design="4/C01"),
    "C03": dict(
        category="exploration",
        technique="runtime monitoring: real `fclones group` runs vs an independent reference partition",
        text="The reported groups must equal, as a set of path sets, the partition of the scanned files by bytes "
             "(transform output when --transform) filtered by the documented replica rule (--rf-over/--rf-under/"
             "--unique, -H), with no path listed twice, no unselected path, and no hash-failure warning on a "
             "healthy tree; same workload dimensions as C01 plus classes of 1..N across roots and hard links, roots given "
             "repeatedly / re-spelled / overlapping, and paths whose components concatenate to the same string.",
        note=COMMON_NOTE + "Plain selection only (selection semantics are C09's job).",
        design="4/C03"),
    "C02": dict(
        category="exploration",
        technique="runtime monitoring: real group->dedupe pipelines, before/after inventory oracle, shim event log",
        text="The real two-process pipeline (fclones group > R; fclones remove|link|link --soft|dedupe|move < R) runs on "
             "generated trees with hard-link sets, -S symlinks, --isolate roots, shell-hostile and non-UTF-8 names "
             "(incl. names with leading/trailing white space next to same-length decoys named like the trimmed name), "
             "text and JSON reports and random dedupe options, move targets that already hold entries, root names that are string "
             "prefixes of each other, the dedupe command run from another working directory and under a varying ambient environment (colour conventions, "
             "locale, a PWD that is not the working directory), names at the 255-byte limit, --isolate DIR given to the dedupe command itself (hard-link sets outside every "
             "isolated root), empty files in reports made with --min 0, relative and absolute -S symlinks. A model-free oracle compares full inventories: no "
             "content digest disappears from regular files, at least max(1,n) replicas of every group are byte-, "
             "inode- and mtime-identical, nothing outside the reported groups changes, linked/cloned paths read back "
             "their bytes, moved bytes exist under DIR. `dedupe` is exercised natively (EOPNOTSUPP: nothing may change) "
             "and through the shim's FICLONE emulation.",
        note=COMMON_NOTE + "FICLONE success is emulated by the LD_PRELOAD shim (whole-file copy); the excluded combination "
             "--match-links + --symbolic-links is never generated. Known finding D18 (--isolate with -S) is listed in known_findings.json.",
        design="4/C02"),
    "C08": dict(
        category="exploration",
        technique="runtime monitoring: real dedupe command lines vs a reference partition model; bash-decoded dry-run script and shim-logged real run",
        text="For generated groups (2..8 files; in 8% of the cases one group of 34..140 files with 2-3 distinct time stamps; names "
             "that are not valid UTF-8 with patterns built from their lossy form; hard-link subsets, 1-3 roots, tied/distinct a/m/c/b-times and nesting) and real "
             "command lines (12 priorities single and chained, --name/--path/--keep-name/--keep-path globs, n given by -n, "
             "--rf-over or inherited, --isolate/-H inherited from the report header or --isolate DIR given to the dedupe command itself, empty files with --min 0, text and JSON reports) the set of paths "
             "the --dry-run script names (decoded by bash) and the set of paths the real run processes (LD_PRELOAD event log "
             "and inventory diff) must both equal the drop set of an independent model of the documented rules.",
        note=COMMON_NOTE + "Sub-group time keys follow the doc comments; a group whose outcome would differ under the opposite "
             "(min/max) aggregation of the time stamps is skipped as ambiguous and counted (the nesting keys are not ambiguous: a replica of several paths ranks by its "
             "deepest / shallowest path). Patterns use the README glob dialect via fcv/globref.py.",
        design="4/C08"),
    "C16": dict(
        category="exploration",
        technique="runtime monitoring at library level: bounded-exhaustive differential run of Pattern/PathSelector against a reference glob matcher",
        text="Through the verif_api hook the harness compiles every glob of <=4 (thorough: <=5) tokens over the documented "
             "constructs, as absolute and as base-dir-relative patterns, and compares Pattern::matches with an independent "
             "backtracking matcher on ~900 paths (incl. newline, non-ASCII, regex metacharacters); for every matching path "
             "all ancestor directories must pass matches_partially / PathSelector::matches_dir (conservative pruning), "
             "excluded-directory pruning must only hide excluded paths (also below a directory whose own path is excluded), a panic anywhere in the pattern code is a violation, and --ignore-case is swept (matching, and pruning outside the "
             "class of the known finding D6). The bounded part is "
             "exhaustive; longer globs are random.",
        note=COMMON_NOTE + "Reference matcher written from the README table only. Undefined constructs are skipped. Known finding "
             "D6 (multi-byte literal prefix) is listed in known_findings.json.",
        design="4/C16"),
    "C17": dict(
        category="exploration",
        technique="runtime monitoring at library level: bounded-exhaustive round trips through fclones' quote/split and through bash itself",
        text="Every string of length <=4 over a 24-symbol alphabet of troublesome bytes (incl. CR, NBSP, U+3000), all lists of <=3 "
             "one-symbol strings (thorough: all pairs of strings of length <=2) and random strings/lists up to 4 KiB are quoted "
             "with arg::quote / arg::join (verif_api hook); fclones' own splitter and bash (scripts of `printf '%s\\0' ...` "
             "lines) must both return exactly the original bytes; panics are caught and reported. CLI level: the "
             "'# Command:' line of real `group` runs with hostile root names and arguments is decoded by bash and compared "
             "with the real argv, and the JSON header command likewise; a quarter of the CLI cases have 1500-4000 arguments or one argument of 50-120 KB, and every "
             "CLI report is read back by `remove --dry-run`, which must accept it.",
        note=COMMON_NOTE + "bash 5 (LC_ALL=C, HOME=/nonexistent-fcv so that tilde expansion is visible) is the oracle. "
             "The bounded part is exhaustive; everything longer is sampled.",
        design="4/C17"),
    "C10": dict(
        category="exploration",
        technique="runtime monitoring at library level: bounded-exhaustive write/read round trips of reports + truncation sweep; CLI dry runs decoded by bash",
        text="Through fclones::report (and the verif_api hook for Arg) every string of length <=3 (thorough: <=4) over a "
             "16-symbol alphabet of troublesome bytes and random strings up to 4 KiB is placed as absolute/relative path in "
             "first, middle and last position of groups, as base directory and as command argument; text and JSON reports "
             "are written and read back with open_report/read_header/read_groups and compared field by field (paths as "
             "bytes, timestamp at ms, lengths and sizes up to u64::MAX). Every byte-prefix of small multi-group reports must be rejected or yield only "
             "unaltered leading groups. At CLI level real `group` reports over hostile names (full and cut at random points) "
             "are piped into `remove --dry-run` and the paths bash decodes from the script must be listed in the report; every "
             "full report is also delivered in two pieces with a pause (same script, same verdict), under a varying ambient "
             "environment.",
        note=COMMON_NOTE + "Paths are compared after fclones' own Path normalisation. The bounded part is exhaustive.",
        design="4/C10"),
    "C19": dict(
        category="exploration",
        technique="runtime monitoring under an interpreter-controlled scheduler: Miri many-seeds + monitors (holder count, count invariant, deadlock/race/UB detection), native stress",
        text="The repository's semaphore.rs is included verbatim (#[path]) in a small crate and run under Miri's seeded "
             "scheduler at three to five preemption rates over a scenario matrix (2..4 threads, 1..3 acquire/release pairs, initial "
             "permits 0..2 incl. a negative start with an external releaser, guards dropped on the acquiring or on another "
             "thread, bounded spurious notify_all through hook H4). Monitors: a shadow holder counter never exceeds the "
             "permits, the count (read under the semaphore's own lock) stays in range, the final count equals initial + "
             "released, every acquisition completes; Miri reports deadlocks (lost wake-ups), data races and UB. Every thread "
             "is bounded so a lost wake-up is a deadlock, not a livelock. The number of distinct event orders seen per "
             "scenario is measured. A native release build runs the same monitors with 2..64 threads under a watchdog with a "
             "quiescence test. In situ: `group` under a low RLIMIT_NOFILE with far more hashing threads than descriptors (and "
             "zero-sized = auto pools) must finish, never hit EMFILE, and keep the number of simultaneously open tree files "
             "(interposer log) within the permits; the open-files semaphore starts with max(RLIMIT_NOFILE-5, 64) permits and ends with as many (hook H5). Scenarios with a permit held for more than a second of (virtual) time.",
        note="Exploration of interleavings, not exhaustion: a seeded sample under Miri's scheduler (quick 16 seeds x 3 rates x 56 "
             "scenarios; thorough 96 seeds x 5 rates x 218 scenarios). Trusted base: Miri's model of std Mutex/Condvar; hook H4 only "
             "adds notify_all/count accessors.",
        design="4/C19"),
    "C07": dict(
        category="exploration",
        technique="runtime monitoring: before/after inventory equality + LD_PRELOAD syscall log with zero mutating calls on the tree",
        text="`fclones group` runs in every transform I/O mode (stdin->stdout, $IN, $IN+$OUT, --in-place, --in-place --no-copy "
             "and --no-copy with helper programs that only read, ignore or fail; a program that leaves FILE.bak next to its input; $TMPDIR unusable), with --cache, -o, all formats and pinned disk "
             "kinds, and every dedupe operation runs with --dry-run and random options, on generated trees (hard links, "
             "symlinks, hostile names, ext4 and tmpfs). Oracle 1: the full inventory (paths, bytes, link structure, inode, mode, "
             "mtime_ns) is identical before and after, $TMPDIR is empty afterwards, the cache dir holds only fclones/. "
             "Oracle 2: the interposer log (inherited by the transform children) contains no successful mutating call whose "
             "mutated path lies under the scanned tree (catches write-then-restore and delete-then-recreate).",
        note=COMMON_NOTE + "The only exception the property allows (a transform program that itself writes to $IN under "
             "--no-copy) is never generated. atime and directory mtimes are not compared.",
        design="4/C07"),
    "C11": dict(
        category="exploration",
        technique="runtime monitoring: dry-run script decoded and executed by bash vs the syscall log and final tree of the real run",
        text="For generated trees with shell-hostile and non-UTF-8 names, all five operations and random options: the "
             "operations bash decodes from the --dry-run script must equal (as a multiset and in report-group order) the "
             "operations reconstructed from the LD_PRELOAD log of the real run on the same tree and report; the two summaries "
             "(N files, bytes) must be equal; for remove / link / link --soft the tree restored from a cp -a backup and "
             "processed by `bash script` must equal the tree left by the real run (paths, types, bytes, link targets, hard-link "
             "partition, no temp leftovers); the script must be identical modulo temp names under RAYON_NUM_THREADS 1/2/16 "
             "with hook jitter at the script generation. 15% of the reports come from a transform over files of different sizes, the "
             "ambient environment varies; 30% of the cases write the script again with -o onto a file holding an older, longer plan (must equal stdout); "
             "explicit --isolate DIR and empty files (--min 0) as in C08; one multi-root scenario in six has its second root on a tmpfs mounted for the case, so that groups "
             "split by device (scripts of such cases are compared as multisets of lines: the order within a group is not promised).",
        note=COMMON_NOTE + "bash 5 is the decoder/executor. `move` and `dedupe` scripts are compared with the real run but not executed "
             "(the property only requires execution equivalence for remove and link). FICLONE is emulated for `dedupe`.",
        design="4/C11"),
    "C05": dict(
        category="fault_enumeration",
        technique="fault injection and crash-point enumeration with an LD_PRELOAD interposer; state-invariant oracle on the resulting tree",
        text="For each scenario (remove / link / link --soft / dedupe with emulated FICLONE / move x small trees with hostile "
             "names x text/JSON report; reports made with --match-links over hard-linked members; move to the same or to another file system, with or without a foreign file at one "
             "destination) a recording run numbers the mutating libc calls on the tree; then exhaustively, each on "
             "a tree restored with cp -a: SIGKILL before call k for every k (covers 'just after k-1'), call k failing with each "
             "of EIO/ENOSPC/EXDEV/EPERM/EOPNOTSUPP/EACCES, and pairs (call k fails and the j-th following call, j=1..4, fails "
             "too, i.e. the roll-back fails); sampled kills with the default thread pool. The oracle is a state invariant valid "
             "at any instant: each processed path still has its bytes at its path, or (crash / failed roll-back) under a temp "
             "sibling, or is a completed link/clone/copy (move: at the target); retained files and files already in the move target "
             "untouched; nothing else changed; "
             "after a handled failure: restored, warned, and 'Processed N' equals what the tree shows.",
        note="Kill and failure instants are libc call boundaries (a kill inside a system call is not modelled); power-loss / "
             "write-back ordering is out of reach; FICLONE success is emulated by the shim. A case whose planned fault does not "
             "fire is inconclusive, never a pass. A clean-up failure after a completed replacement may leave the temp sibling "
             "if 'Failed to remove temporary' is logged (the replacement is already complete). EPERM on a sendfile that follows a "
             "successful one is not generated (the kernel cannot do that and std::fs::copy asserts it).",
        design="4/C05"),
    "C18": dict(
        category="exploration",
        technique="runtime monitoring: move model + before/after inventories + syscall trace monitor + injected rename/copy/mkdir/unlink faults",
        text="Real `group | move DIR` pipelines with DIR outside/inside the scanned tree, on the same file system or on tmpfs "
             "(EXDEV, copy fallback), absolute or relative, pre-populated at mapped target paths with files, directories, "
             "symlinks (also dangling) and non-directories at parent positions, optionally with one injected fault, with a PWD "
             "variable that does not name the working directory, DIR spelled with `..` after a symlink to a directory at another depth, DIR below a bind mount made for the case (copy without a rename attempt). Every "
             "source the model selects must end up at DIR/<absolute source path> with identical bytes or stay in place with a "
             "warning; every entry that existed under DIR (or behind its symlinks) is unchanged; in the trace, unlink(source) of "
             "a copied file follows the last write to and the close of its target.",
        note=COMMON_NOTE + "The set of sources to move comes from the C08 reference model. tmpfs is the second file system.",
        design="4/C18"),
    "C20": dict(
        category="exploration",
        technique="runtime monitoring: a foreign process holds fcntl locks; inventory + syscall log + drop model",
        text="A helper process holds POSIX write or read locks (whole file, first byte, a record inside the file or past its end; in a quarter of the cases fclones' own open-for-write "
             "of the locked file is refused) on chosen droppable members (controls: locks on retained "
             "members, locks released before the run; empty files in reports made with --min 0); every operation runs with and without --no-lock on the real report. "
             "Locked inodes' paths must be untouched and reported ('Failed to lock'), all other droppable files processed "
             "exactly as the reference model says, the processed count must exclude the locked ones; with --no-lock they are "
             "processed like the others.",
        note=COMMON_NOTE + "`dedupe` runs with FICLONE emulation so that 'left alone' differs from 'failed anyway'.",
        design="4/C20"),
    "C15": dict(
        category="fault_enumeration",
        technique="read-path fault injection with an LD_PRELOAD interposer (exact path, n-th call) vs the reference partition without the faulted entry",
        text="Root ignores permission bits, so faults are injected at libc level: a recording run counts, per path, the "
             "stat / open (extent-query vs hashing, incl. the O_NOATIME retry) / read / opendir / readdir / FIEMAP calls of a "
             "scenario tree (hard-link sets, classes that leave at the prefix, suffix and content stage, nested directories); "
             "then one run per (entry, call position, errno in EACCES/EIO/ENOENT) fails exactly that call, under six "
             "configurations (disk kind pinned ssd/hdd/unknown, ext4/tmpfs, thread pools, the tree given as one root or as a list "
             "of files and directories on --stdin, whose own stat faults are included; --unique; --skip-content-hash; --no-copy "
             "transforms whose child process meets the fault), plus persistent faults (every stat / open / read of one file fails); "
             "thorough adds pairs of faults on two "
             "files and more scenarios. The run must exit 0 with a complete report equal to the reference partition of the tree "
             "without the entry (subtree for a directory; entries after a failed readdir are don't-care; a failed extent query "
             "changes nothing, nor does a failed stat whose result was not needed: the report then equals the fault-free one) and a "
             "warning must name the entry unless it vanished (ENOENT). Conservation monitor (hook H5): in every fault run the open-files semaphore holds as many "
             "permits when grouping ends as when it started. A 13th configuration uses a transform whose process is killed by a signal on about half of the files: "
             "they must be left out with a warning already in the fault-free run.",
        note="Faults are at libc call granularity. A run that does not end is a violation only if the quiescence test shows the process "
             "and its live descendants asleep without progress.  Cases whose fault did not fire (the call sequence varies with the schedule for "
             "hard-linked files) are inconclusive and reported as such. Trusted base as for C03.",
        design="4/C15"),
    "C06": dict(
        category="exploration",
        technique="runtime monitoring: real `group` runs vs the documented replica-counting rule; metamorphic re-spelling of the roots",
        text="Trees with hard links and file symlinks inside and across 1..4 roots are grouped under every combination of "
             "--rf-over k / --rf-under k / --unique with -H, --isolate, -S and a transform; the reported groups must equal the "
             "documented replica rule applied to the byte partition (README 'Handling links'; its 4-hard-link table is case 0); "
             "30% of the multi-root trees use root names that are string prefixes of each other; 15% of the runs add --skip-content-hash "
             "(the counting rule does not depend on the stages that ran). "
             "Each tree is grouped again with the roots spelled as ./x, x/, y/../x, through a directory symlink, absolute, and "
             "from another working directory with --base-dir: every spelling must give the same groups.",
        note=COMMON_NOTE + "Overlapping roots under --isolate are undocumented and not generated; -H together with -S is excluded.",
        design="4/C06"),
    "C13": dict(
        category="exploration",
        technique="runtime monitoring: metamorphic equality of report bodies across schedules/settings, hang watchdog with quiescence test, ThreadSanitizer and AddressSanitizer runs",
        text="For each generated tree (ext4/tmpfs, hard links, sizes around all stage thresholds) the JSON body of a base run "
             "is compared with runs under: repetition, 12 --threads specifications incl. single-thread pools, permuted roots, "
             "--stdin, CPU affinity of 1 and 2 cores, and seeded jitter injected by hook H3 inside the hashing tasks and before "
             "the result channel (body must be identical); 7 hash functions, --max-prefix-size/--max-suffix-size, pinned disk "
             "kind, cache cold/warm (partition must be identical); a third of the trees add .gitignore files and file/directory "
             "symlinks and run with --follow-links (several routes to one file); a quarter of the others use an external --transform "
             "over files sharing base names. The number of distinct hash-completion orders observed per "
             "tree is measured from the event hook. A run that exceeds a generous watchdog is a violation only if the process is "
             "provably quiescent (all threads asleep, no CPU progress, no children; gdb backtrace recorded), otherwise "
             "inconclusive. Thorough: 40+40 workloads on -Zsanitizer=thread (build-std) and -Zsanitizer=address builds; a report "
             "whose racing/faulting access is in fclones' own code is a violation, dependency-only reports are counted.",
        note=COMMON_NOTE + "TSan cannot model crossbeam's fence-based code (suppressed) and reports frees inside sled's own Arc; "
             "those are counted as dependency-only noise. Known finding D32 (with -L the selection of a file reachable by several "
             "routes depends on the schedule) is recognised through C09's reference walk and listed in known_findings.json. A clean sanitizer run is 'no report on these executions', not memory safety.",
        design="4/C13"),
    "C14": dict(
        category="exploration",
        technique="runtime monitoring: four independent report parsers, statistics recomputed from the body, metamorphic body equality",
        text="Link-rich multi-root trees with hostile names are grouped with random replication filters, --isolate, -H, -S and a "
             "transform in all four formats and with -o; independent parsers check that header/JSON statistics equal the values "
             "recomputed from the body (documented definitions of redundant/missing), each group header count equals its path "
             "lines, groups are in non-increasing size, paths are absolute, --isolate keeps the paths of one root contiguous and "
             "roots in the given order (also with an input path that is a symlink to a file, below no root), text/JSON/CSV/fdupes "
             "list the same groups under a varying ambient environment (CLICOLOR_FORCE etc.), -o equals stdout (half of the time written onto a file that holds an older, longer report), --isolate roots given in shuffled order, and the body does not change "
             "with thread settings, root order (without --isolate) or file creation order.",
        note=COMMON_NOTE,
        design="4/C14"),
    "C04": dict(
        category="exploration",
        technique="runtime monitoring: hook-paused `group` runs with edits at logical instants, then real dedupe runs; before/after inventory oracle",
        text="Histories (tree; `group`; ordinary file edits; dedupe) in which the edit instant is a hook H3 pause point rather than "
             "a sleep: after the scan, after file X's prefix/suffix/content hash while others are pending, after all hashing "
             "but before the report is written, or after `group` exited. Ten edit kinds (same/different-length rewrite, append, "
             "truncate, delete, delete+recreate, replace by directory / dangling symlink / symlink to a fresh file, touch) on "
             "1..all members of a group, then each of the five operations on the text or JSON report, in time zones east and west "
             "of UTC, with the length comparison on or off (--transform report, --no-check-size), a fifth of them over two --isolate roots, a fifth of the reports made with -S (then also: a member replaced by a symlink to an old file of another length); a member replaced by an old file of another length (under two --isolate roots aimed at a "
             "later member of the second root); -n / --rf-over on 30% of the dedupe command lines. The inventory taken just "
             "before the dedupe command is compared with the one after: no content held by a regular file may disappear and "
             "after link / link --soft / dedupe every regular file reads back the same bytes.",
        note=COMMON_NOTE + "Outside the guarantee and never generated: mtime-preserving replacement, and edits closer than one kernel "
             "timer tick (edits are kept >= 12 ms away) to the instant fclones reads the clock, because file mtimes come from the "
             "coarse kernel clock and a sub-tick race cannot be driven deterministically.",
        design="4/C04"),
    "C09": dict(
        category="exploration",
        technique="runtime monitoring: real `group --rf-over 0` listings vs a three-valued reference walk",
        text="Generated trees (nesting 0..6, hidden entries, .gitignore/.fdignore, relative/absolute/dangling/cyclic/cross-device "
             "symlinks (absolute targets also in non-canonical spelling), links named like directories-only ignore rules, directory names with regex metacharacters, spaces and non-ASCII text) are scanned with random "
             "combinations of --depth, --hidden, --no-ignore, -L, -S, --min/--max, --name/--path/--exclude (globs or a regex "
             "subset, absolute or cwd-relative, --ignore-case), --one-fs, overlapping/repeated roots and unusual working "
             "directories. The listed paths must contain every 'must' path of an independent reference walk and nothing outside "
             "must + don't-care, with no duplicates.",
        note=COMMON_NOTE + "Don't-care only where the documentation is silent: an explicitly given hidden root, what lies behind "
             "a link whose own path is excluded (files below a *directory* whose own path is excluded are defined: --exclude applies to the paths of files, and pruning "
             "must not lose a file that is not excluded itself), and files whose listing under -L depends on which "
             "of several overlapping roots reaches a shared directory first (decided by running the reference under depth-first "
             "orders, 60 random schedules of a work list and the deepest-first / shallowest-first ones). Known finding D6 is listed in known_findings.json.",
        design="4/C09"),
    "C12": dict(
        category="exploration",
        technique="runtime monitoring: cached vs uncached differential runs over edit histories, cache hits counted through the event hook, kills at hook pause points",
        text="Histories of 1..6 steps (edit the tree; `group --cache` with some configuration) over files that share long prefixes "
             "and suffixes; after each step the same configuration runs uncached with a fresh $HOME and the report bodies must be "
             "identical. Edits: create, modify same length (mtime forwards, or backwards as after restoring an older copy), append, truncate, rename, delete-and-recreate in the same directory "
             "(inode reuse measured), hard-link, copy; the configuration (hash function, transform, prefix/suffix sizes, disk kind) "
             "may switch between steps (one transform fails on about half of the files after partial output; one rewrites its input file and is read with or without --in-place); "
             "one tree in seven carries modification times before 1970; a quarter of the steps are preceded by a cached run that is SIGKILLed at a hook pause "
             "point. Only steps with at least one cache hit (event hook) count as non-trivial.",
        note=COMMON_NOTE + "The proviso of the property (every content change also changes mtime in ms or length) is enforced by the "
             "harness.",
        design="4/C12"),
}

NOT_YET = {}

ALL = ["C%02d" % i for i in range(1, 21)]


def main():
    checks = []
    for pid in ALL:
        c = CHECKS.get(pid)
        if not c:
            continue
        checks.append({
            "property_id": pid,
            "quick_cmd": "python3 fcv/check.py %s --tier quick" % pid,
            "thorough_cmd": "python3 fcv/check.py %s --tier thorough" % pid,
            "evidence_file": "/verif/evidence/%s.json" % pid,
            "replay_cmd_template": "python3 fcv/check.py %s --replay {path}" % pid,
            "engine": "fcv",
            "level_claimed": {"category": c["category"], "text": c["text"], "design_ref": "DESIGN.md section " + c["design"]},
            "level_note": c["note"],
            "technique": c["technique"],
        })
    na = [{"property_id": pid, "reason": NOT_YET.get(pid, "check not built yet; planned in DESIGN.md section 4 (work in progress)")}
          for pid in ALL if pid not in CHECKS]
    try:
        commits = subprocess.run(["git", "-C", "/repo", "log", "--format=%H %s"], stdout=subprocess.PIPE).stdout.decode().splitlines()
        hook_commits = [l.split()[0] for l in commits if "verif hook" in l]
    except Exception:
        hook_commits = []
    m = {
        "version": 1,
        "setup_cmd": "python3 fcv/build.py --all",
        "hooks": {
            "guard": "--cfg fclones_verif",
            "enable": "RUSTFLAGS=\"--cfg fclones_verif --check-cfg=cfg(fclones_verif)\" (set by fcv/build.py for every variant)",
            "baseline_off_cmd": "cd /repo && cargo nextest run --workspace --no-fail-fast --test-threads 8 --offline || cargo test --workspace --no-fail-fast --offline",
            "source_commits": hook_commits,
            "add_only": True,
        },
        "engines": [
            {"name": "fcv", "path": "fcv/check.py", "serves_properties": sorted(CHECKS),
             "kind_free_text": "python3 driver: generated workloads against the real fclones binary/library built from /repo "
                               "with hooks on, independent oracles (byte comparison, reference models, inventories, "
                               "LD_PRELOAD syscall log and fault injection, bash), Miri/sanitizers for C19/C13"},
        ],
        "checks": checks,
        "not_applicable": na,
        "notes": "All checks rebuild /repo's working tree incrementally (cargo, lock-serialised) with --cfg fclones_verif. "
                 "Exit 0 = held on everything explored, 1 = VIOLATION line printed, 2 = harness error (nothing conclusive). "
                 "Known findings: /verif/known_findings.json.",
    }
    with open(os.path.join(VERIF, "MANIFEST.json"), "w") as f:
        json.dump(m, f, indent=1)
    print("wrote MANIFEST.json with %d checks, %d not_applicable" % (len(checks), len(na)))


if __name__ == "__main__":
    main()
