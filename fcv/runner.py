"""Parallel case runner: case functions run in worker processes and return outcome dicts; the
parent folds them into a Check. Outcome: {"kind": "ok"|"violation"|"inconclusive", ...}."""
import concurrent.futures as cf
import os
import time
import traceback


def ok(sig=None, sample=None, counts=None):
    return {"kind": "ok", "sig": sig, "sample": sample, "counts": counts or {}}


def violation(signature, summary, witness, sig=None, counts=None):
    return {"kind": "violation", "signature": signature, "summary": summary, "witness": witness,
            "sig": sig, "counts": counts or {}}


def inconclusive(reason, counts=None):
    return {"kind": "inconclusive", "reason": reason, "counts": counts or {}}


def _wrapped(fn, arg):
    try:
        return fn(arg)
    except Exception:
        return [inconclusive("harness-exception: " + traceback.format_exc()[-1500:])]


def fold(check, outcomes):
    for o in outcomes:
        for k, v in (o.get("counts") or {}).items():
            if isinstance(v, (set, list, tuple, frozenset)):
                s = check.extra.setdefault("_set_" + k, set())
                s.update(v)
            else:
                check.count(k, v)
        if o["kind"] == "ok":
            check.ok(o.get("sig"), o.get("sample"))
        elif o["kind"] == "violation":
            check.violation(o["signature"], o["summary"], o["witness"], o.get("sig"))
        else:
            check.note_inconclusive(o["reason"][:300])


def finalize_sets(check):
    for k in list(check.extra):
        if k.startswith("_set_"):
            check.extra["distinct_" + k[5:]] = len(check.extra.pop(k))


def run_cases(check, fn, args, workers=None, budget_s=None):
    """Runs fn(arg) for every arg in worker processes. fn returns a list of outcomes.
    Stops submitting new cases once budget_s is exceeded (cases not run are simply not counted)."""
    workers = workers or min(14, os.cpu_count() or 4)
    t0 = time.time()
    args = list(args)
    skipped = 0
    with cf.ProcessPoolExecutor(max_workers=workers) as ex:
        pending = set()
        it = iter(args)
        done_submitting = False
        while True:
            while not done_submitting and len(pending) < workers * 2:
                if budget_s is not None and time.time() - t0 > budget_s:
                    done_submitting = True
                    skipped = sum(1 for _ in it)
                    break
                try:
                    a = next(it)
                except StopIteration:
                    done_submitting = True
                    break
                pending.add(ex.submit(_wrapped, fn, a))
            if not pending:
                break
            done, pending = cf.wait(pending, return_when=cf.FIRST_COMPLETED)
            for f in done:
                try:
                    fold(check, f.result())
                except Exception:
                    check.note_inconclusive("worker-crash: " + traceback.format_exc()[-500:])
    if skipped:
        check.extra["cases_not_run_budget"] = skipped
    finalize_sets(check)
