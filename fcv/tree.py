"""TreeSpec: a JSON-able description of a directory tree, its generators and its materialisation.

A spec is {"entries": [entry...]} where an entry is one of
  {"t": "d", "p": relpath}
  {"t": "f", "p": relpath, "fam": int, "len": int, "flip": [offsets], "mtime": secs-ago}
  {"t": "sp", "p": relpath, "len": int, "marks": [[offset, byte]...], "mtime": secs-ago}   sparse file: zeros except marks
  {"t": "h", "p": relpath, "to": relpath}            hard link to an earlier file entry
  {"t": "l", "p": relpath, "to": target-string}      symlink (target stored verbatim)
relpaths are str (os.fsdecode of bytes, so arbitrary bytes survive JSON)."""
import os
import random

from .common import fse, fsd

BASE_MTIME = 1_600_000_000  # files get mtimes in the past: BASE_MTIME + k


def content(fam, length, flips=()):
    """Deterministic pseudo-random content of a family; variants flip single bytes."""
    r = random.Random(fam * 7919 + 13)
    # randbytes is fast enough for <= a few MB
    b = bytearray(r.randbytes(length))
    for off in flips:
        if 0 <= off < length:
            b[off] ^= 0xFF
    return bytes(b)


def materialise(spec, root):
    """Creates the tree under `root` (bytes or str). Returns dict relpath(str) -> abs path bytes."""
    rootb = fse(root)
    os.makedirs(rootb, exist_ok=True)
    paths = {}
    dirs_mtime = []
    for e in spec["entries"]:
        p = os.path.join(rootb, fse(e["p"]))
        paths[e["p"]] = p
        parent = os.path.dirname(p)
        if parent and not os.path.isdir(parent):
            os.makedirs(parent)
        t = e["t"]
        if t == "d":
            os.makedirs(p, exist_ok=True)
        elif t == "f":
            with open(p, "wb") as f:
                f.write(content(e["fam"], e["len"], e.get("flip", ())))
            mt = BASE_MTIME + int(e.get("mtime", 0))
            os.utime(p, (mt, mt))
            if "mode" in e:
                os.chmod(p, e["mode"])
        elif t == "sp":
            with open(p, "wb") as f:
                f.truncate(e["len"])
                for off, val in e.get("marks", ()):
                    os.pwrite(f.fileno(), bytes([val]), off)
            mt = BASE_MTIME + int(e.get("mtime", 0))
            os.utime(p, (mt, mt))
        elif t == "raw":
            with open(p, "wb") as f:
                f.write(fse(e["data"]))
            mt = BASE_MTIME + int(e.get("mtime", 0))
            os.utime(p, (mt, mt))
        elif t == "h":
            os.link(os.path.join(rootb, fse(e["to"])), p)
        elif t == "l":
            os.symlink(fse(e["to"]), p)
        elif t == "fifo":
            os.mkfifo(p)
        else:
            raise ValueError(t)
    return paths


BIG = 8 << 20


def content_token(path, big=BIG):
    """The bytes of a file in a form that can be compared for equality: the bytes themselves up to `big`, otherwise
    ("sparse", length, ((offset, byte) for every non-zero byte)), read through SEEK_DATA so that a file of several GiB
    that is mostly a hole costs nothing. Exact: two files are byte-identical iff their tokens are equal."""
    with open(path, "rb") as f:
        size = os.fstat(f.fileno()).st_size
        if size <= big:
            return f.read()
        fd = f.fileno()
        pairs = []
        pos = 0
        while pos < size:
            try:
                pos = os.lseek(fd, pos, os.SEEK_DATA)
            except OSError:
                break  # ENXIO: no data after pos
            end = os.lseek(fd, pos, os.SEEK_HOLE)
            while pos < end:
                chunk = os.pread(fd, min(1 << 20, end - pos), pos)
                if not chunk:
                    break
                if chunk.count(0) != len(chunk):
                    for k in range(0, len(chunk), 4096):
                        blk = chunk[k:k + 4096]
                        if blk.count(0) != len(blk):
                            pairs.extend((pos + k + j, b) for j, b in enumerate(blk) if b)
                pos += len(chunk)
        return ("sparse", size, tuple(pairs))


def token_len(tok):
    return tok[1] if isinstance(tok, tuple) else len(tok)


def token_first_diff(a, b):
    if isinstance(a, tuple) or isinstance(b, tuple):
        if isinstance(a, tuple) and isinstance(b, tuple):
            da, db = dict(a[2]), dict(b[2])
            diffs = [o for o in set(da) | set(db) if da.get(o) != db.get(o)]
            return min(diffs) if diffs else min(a[1], b[1])
        return 0
    n = min(len(a), len(b))
    return next((k for k in range(n) if a[k] != b[k]), n)


# ------------------------------------------------------------------------------------------
# Name pools

PLAIN = ["a", "b", "c", "data", "file1", "file2", "x.txt", "y.bin", "img.jpg", "doc", "n0", "n1", "n2",
         "alpha", "beta", "gamma", "k", "m", "q", "r7", "s8", "t9", "u", "v", "w"]

HOSTILE_B = [
    b" lead", b"trail ", b"tab\there", b"nl\nname", b"cr\rname", b"q'uote", b'dq"uote', b"back\\slash",
    b"dol$lar", b"back`tick", b"st*ar", b"que?stion", b"br[ack]et", b"#hash", b"~tilde", b"-n", b"--",
    "ż".encode(), "😀".encode(), "nb sp".encode(), "ls sep".encode(), b"\xff", b"a\xc5", b"\xed\xa0\xbd",
    b"x" * 200, b"sp ace", b"semi;colon", b"amp&er", b"pipe|", b"par(en)", b"cur{ly}", b"eq=ual", b"per%cent",
    b"trailnl\n", b"trailtab\t", "trail ".encode(), "trail ".encode(), b" ", b"!bang", b"a b  c",
    "\u00a0leadnb".encode(), "nel\u0085".encode(), "ideo\u3000".encode(),
    b"br{a,b}ce", b"seq{1..3}", b"\xf0\x9f\x98cut",
    b"\x01ctl", b"\x7fdel", b"new\nline\ntwice", b"'", b'"', b"\\", b"$'x'", b"$(echo)", b"a'b\"c",
]
HOSTILE = [fsd(b) for b in HOSTILE_B]


def pick_name(r, used, hostile_p=0.0):
    for _ in range(100):
        if r.random() < hostile_p:
            n = r.choice(HOSTILE)
        else:
            n = r.choice(PLAIN)
        if r.random() < 0.5:
            n = n + str(r.randrange(100))
        if n not in used and n not in (".", ".."):
            used.add(n)
            return n
    n = "u%d" % len(used)
    used.add(n)
    return n


# lengths and flip offsets straddling every stage threshold
INTERESTING_LENS = [1, 2, 3, 100, 4095, 4096, 4097, 5000, 8192, 16383, 16384, 16385, 20000,
                    32768, 65535, 65536, 65537, 70000, 131071, 131072, 131073, 200000, 300000]


def interesting_offsets(L, P=(4096, 16384), S=(4096, 16384), extra=()):
    offs = {0, 1, L // 2, L - 1, L - 2, 65535, 65536, 65537}
    for p in list(P) + list(extra):
        offs.update((p - 1, p, p + 1))
    for s in list(S) + list(extra):
        offs.update((L - s - 1, L - s, L - s + 1))
    return sorted(o for o in offs if 0 <= o < L)


WS_CHARS = [" ", "\u00a0", "\u2028", "\u3000", "\u0085", "  "]


def gen_dup_tree(r, n_classes=6, max_members=4, hostile_p=0.0, n_dirs=4, max_depth=3, hardlinks=True,
                 lens=None, decoys=True, extra_offsets=(), min_len=1, roots=1, ws_twins=0.0, concat_collisions=0.0,
                 prefix_roots=False):
    """A tree with content classes (identical files), same-length single-byte decoys, hard links.

    Returns (spec, meta) where meta lists classes: {"fam","len","flip","members":[relpaths]}."""
    entries = []
    used_dirs = set()
    used = {}
    dirs = []
    root_names = []
    for i in range(roots):
        # prefix_roots: each root's name is a string prefix (not a path prefix) of the next one's
        rn = ["r1", "r10", "r10-b", "r10-bak"][i] if prefix_roots and i < 4 else "r%d" % i
        root_names.append(rn)
        dirs.append(rn)
        entries.append({"t": "d", "p": rn})
    for _ in range(n_dirs):
        parent = r.choice(dirs)
        if parent.count("/") >= max_depth:
            continue
        n = pick_name(r, used_dirs, hostile_p)
        d = parent + "/" + n
        dirs.append(d)
        used.setdefault(parent, set()).add(n)
        entries.append({"t": "d", "p": d})
    classes = []
    mt = 0

    def newfile(fam, L, flips):
        nonlocal mt
        d = r.choice(dirs)
        u = used.setdefault(d, set())
        p = d + "/" + pick_name(r, u, hostile_p)
        mt += 1
        entries.append({"t": "f", "p": p, "fam": fam, "len": L, "flip": list(flips), "mtime": mt})
        return p

    lens = lens or INTERESTING_LENS
    for c in range(n_classes):
        L = r.choice(lens) if r.random() < 0.8 else r.randrange(min_len, 150000)
        L = max(L, min_len)
        fam = r.randrange(1, 10 ** 6)
        n = r.randrange(1, max_members + 1)
        members = [newfile(fam, L, ()) for _ in range(n)]
        cls = {"fam": fam, "len": L, "flip": [], "members": members}
        classes.append(cls)
        if hardlinks and r.random() < 0.35:
            src = r.choice(members)
            d = r.choice(dirs)
            u = used.setdefault(d, set())
            p = d + "/" + pick_name(r, u, hostile_p)
            entries.append({"t": "h", "p": p, "to": src})
            cls["members"].append(p)
            cls.setdefault("links", []).append((p, src))
        if decoys and L > 0:
            offs = interesting_offsets(L, extra=extra_offsets)
            for _ in range(r.randrange(0, 3)):
                o = r.choice(offs)
                nd = r.randrange(1, 3)
                dm = [newfile(fam, L, (o,)) for _ in range(nd)]
                classes.append({"fam": fam, "len": L, "flip": [o], "members": dm, "decoy_of": c})
    if concat_collisions and r.random() < concat_collisions and classes:
        # paths whose components concatenate to the same string: D/ab/c and D/a/bc (hard links or copies)
        cls = r.choice(classes)
        base = r.choice(root_names)
        k = len(entries)
        d1, d2 = "%s/cc%dab" % (base, k), "%s/cc%da" % (base, k)
        entries.append({"t": "d", "p": d1})
        entries.append({"t": "d", "p": d2})
        mt += 1
        p1, p2 = d1 + "/c", d2 + "/bc"
        if d1[len(base) + 1:] + "c" == d2[len(base) + 1:] + "bc":
            entries.append({"t": "f", "p": p1, "fam": cls["fam"], "len": cls["len"], "flip": list(cls["flip"]), "mtime": mt})
            cls["members"].append(p1)
            if r.random() < 0.6:
                entries.append({"t": "h", "p": p2, "to": p1})
                cls.setdefault("links", []).append((p2, p1))
            else:
                mt += 1
                entries.append({"t": "f", "p": p2, "fam": cls["fam"], "len": cls["len"], "flip": list(cls["flip"]), "mtime": mt})
            cls["members"].append(p2)
    if ws_twins and r.random() < ws_twins:
        # a class member whose name ends (or starts) with white space, next to an unrelated unique
        # file of the same length whose name is the trimmed one
        for _ in range(r.randrange(1, 3)):
            cls = r.choice(classes)
            if len(cls["members"]) < 2 or cls["len"] == 0:
                continue
            victim = cls["members"][-1]
            ent = next(e for e in entries if e["p"] == victim and e["t"] in "fh")
            d, base = victim.rsplit("/", 1)
            ws = r.choice(WS_CHARS)
            newname = (base + ws) if r.random() < 0.7 else (ws + base)
            if base in used.get(d, ()) and newname not in used.get(d, ()):
                used[d].add(newname)
                for e in entries:
                    if e.get("to") == victim and e["t"] == "h":
                        e["to"] = d + "/" + newname
                ent["p"] = d + "/" + newname
                cls["members"][-1] = ent["p"]
                mt += 1
                entries.append({"t": "f", "p": victim, "fam": r.randrange(10 ** 6, 2 * 10 ** 6), "len": cls["len"],
                                "flip": [], "mtime": mt})
                classes.append({"fam": -1, "len": cls["len"], "flip": [], "members": [victim], "ws_twin": True})
    return {"entries": entries, "roots": root_names}, {"classes": classes}


def rename_entry(spec, meta, old, new):
    """Renames a file entry of a spec (relpath old -> new), keeping hard-link references and class lists in step."""
    if any(e["p"] == new for e in spec["entries"]):
        return False
    for e in spec["entries"]:
        if e["t"] == "h" and e.get("to") == old:
            e["to"] = new
        elif e["t"] == "l" and e.get("to") == "@ABS@/" + old:
            e["to"] = "@ABS@/" + new
        if e["p"] == old:
            e["p"] = new
    for c in (meta or {}).get("classes", []):
        c["members"] = [new if m == old else m for m in c["members"]]
        if "links" in c:
            c["links"] = [(new if a == old else a, new if b == old else b) for a, b in c["links"]]
    return True
