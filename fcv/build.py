"""Builds /repo's current working tree (hooks on) in the variants the checks need.

Every build is serialised per variant with a lock file, is incremental (cargo), and is redone on
every check run so that edits to /repo are picked up."""
import fcntl
import hashlib
import os
import subprocess
import sys
import time

if __package__ in (None, ""):
    sys.path.insert(0, os.path.dirname(os.path.dirname(os.path.abspath(__file__))))
    from fcv import common
else:
    from . import common

GUARD_FLAGS = "--cfg fclones_verif --check-cfg=cfg(fclones_verif)"


def _target(variant):
    d = os.path.join(common.BUILD, variant)
    if common.REPO != "/repo":
        d += "-" + hashlib.sha1(common.REPO.encode()).hexdigest()[:8]
    return d


def _env(extra):
    env = dict(os.environ)
    env["CARGO_NET_OFFLINE"] = "true"
    env.pop("RUSTFLAGS", None)
    env.update(extra)
    return env


class _Lock:
    def __init__(self, name):
        os.makedirs(common.BUILD, exist_ok=True)
        self.path = os.path.join(common.BUILD, ".lock-" + name)

    def __enter__(self):
        self.f = open(self.path, "w")
        fcntl.flock(self.f, fcntl.LOCK_EX)
        return self

    def __exit__(self, *a):
        fcntl.flock(self.f, fcntl.LOCK_UN)
        self.f.close()


def _run(argv, env, cwd, what):
    t0 = time.time()
    p = subprocess.run(argv, env=env, cwd=cwd, stdout=subprocess.PIPE, stderr=subprocess.STDOUT)
    if p.returncode != 0:
        sys.stdout.write(p.stdout.decode("utf-8", "replace")[-6000:])
        print("BUILD-ERROR %s failed (exit %d)" % (what, p.returncode))
        sys.exit(2)
    return time.time() - t0


def build_rel():
    with _Lock("rel"):
        env = _env({"RUSTFLAGS": GUARD_FLAGS, "CARGO_PROFILE_RELEASE_LTO": "off",
                    "CARGO_TARGET_DIR": _target("rel")})
        _run(["cargo", "build", "--release", "-p", "fclones", "--offline"], env, common.REPO, "rel")
    return os.path.join(_target("rel"), "release", "fclones")


def build_asan():
    with _Lock("asan"):
        env = _env({"RUSTFLAGS": GUARD_FLAGS + " -Zsanitizer=address -Cforce-frame-pointers=yes",
                    "CARGO_PROFILE_RELEASE_LTO": "off", "CARGO_PROFILE_RELEASE_PANIC": "unwind",
                    "CARGO_TARGET_DIR": _target("asan")})
        _run(["cargo", "+nightly", "build", "--release", "-p", "fclones", "--offline",
              "--target", "x86_64-unknown-linux-gnu"], env, common.REPO, "asan")
    return os.path.join(_target("asan"), "x86_64-unknown-linux-gnu", "release", "fclones")


def build_tsan():
    with _Lock("tsan"):
        env = _env({"RUSTFLAGS": GUARD_FLAGS + " -Zsanitizer=thread --cfg has_std --cfg crossbeam_sanitize"
                                               " --check-cfg=cfg(has_std) --check-cfg=cfg(crossbeam_sanitize)",
                    "CARGO_PROFILE_RELEASE_LTO": "off", "CARGO_PROFILE_RELEASE_PANIC": "unwind",
                    "CARGO_TARGET_DIR": _target("tsan")})
        _run(["cargo", "+nightly", "build", "--release", "-p", "fclones", "--offline", "-Zbuild-std",
              "--target", "x86_64-unknown-linux-gnu"], env, common.REPO, "tsan")
    return os.path.join(_target("tsan"), "x86_64-unknown-linux-gnu", "release", "fclones")


def build_shim():
    with _Lock("shim"):
        src = os.path.join(common.VERIF, "shim", "fcvshim.c")
        out = common.SHIM
        if not os.path.exists(out) or os.path.getmtime(out) < os.path.getmtime(src):
            env = _env({})
            tmp = out + ".tmp%d" % os.getpid()
            _run(["gcc", "-O2", "-g", "-shared", "-fPIC", "-Wall", "-o", tmp, src, "-ldl", "-lpthread"],
                 env, common.VERIF, "shim")
            os.replace(tmp, out)
    return common.SHIM


def _prepare_harness_lock(crate_dir):
    lock_src = os.path.join(common.REPO, "Cargo.lock")
    lock_dst = os.path.join(crate_dir, "Cargo.lock")
    if not os.path.exists(lock_dst):
        with open(lock_src, "rb") as f:
            data = f.read()
        with open(lock_dst, "wb") as f:
            f.write(data)


def build_harness(bins=None):
    crate = os.path.join(common.VERIF, "harness")
    with _Lock("harness"):
        _prepare_harness_lock(crate)
        env = _env({"RUSTFLAGS": GUARD_FLAGS, "CARGO_TARGET_DIR": _target("harness"),
                    "FCV_REPO_PATH": common.REPO})
        argv = ["cargo", "build", "--release", "--offline"]
        for b in bins or []:
            argv += ["--bin", b]
        _run(argv, env, crate, "harness")
    return os.path.join(_target("harness"), "release")


def harness_bin(name):
    return os.path.join(_target("harness"), "release", name)


def main():
    which = sys.argv[1:] or ["--all"]
    t0 = time.time()
    if "--all" in which or "shim" in which:
        build_shim()
        print("built shim %.1fs" % (time.time() - t0))
    if "--all" in which or "rel" in which:
        build_rel()
        print("built rel %.1fs" % (time.time() - t0))
    if "--all" in which or "harness" in which:
        build_harness()
        print("built harness %.1fs" % (time.time() - t0))
    if "asan" in which:
        build_asan()
        print("built asan %.1fs" % (time.time() - t0))
    if "tsan" in which:
        build_tsan()
        print("built tsan %.1fs" % (time.time() - t0))


if __name__ == "__main__":
    main()
