"""Reference matcher for the glob dialect documented in fclones' README ('Path Globbing').

Written from the documentation table only; a backtracking matcher over a small AST, no regex
translation. Only the documented constructs are supported; anything else raises Unsupported."""


import sys

sys.setrecursionlimit(max(sys.getrecursionlimit(), 12000))


class Unsupported(Exception):
    pass


# AST nodes: ("lit", ch) ("any1",) ("star",) ("dstar",) ("cls", negated, [(lo, hi)...]) ("grp", kind, [seq...])
# kind in "once", "opt", "plus", "many"

def parse(glob):
    if "**(" in glob:
        raise Unsupported("'**(' is ambiguous")
    seq, rest = _parse_seq(glob, 0, stop="")
    if rest != len(glob):
        raise Unsupported("unbalanced: %r" % glob)
    return seq


def _parse_seq(g, i, stop):
    out = []
    n = len(g)
    while i < n:
        c = g[i]
        if c in stop:
            break
        if c == "\\":
            if i + 1 >= n:
                raise Unsupported("dangling escape")
            out.append(("lit", g[i + 1]))
            i += 2
        elif c == "{":
            alts, i = _parse_alts(g, i + 1, ",", "}")
            out.append(("grp", "once", alts))
        elif c in "@?+*!" and i + 1 < n and g[i + 1] == "(":
            if c == "!":
                raise Unsupported("!() is not documented in the README")
            alts, i = _parse_alts(g, i + 2, "|", ")")
            out.append(("grp", {"@": "once", "?": "opt", "+": "plus", "*": "many"}[c], alts))
        elif c == "*":
            if i + 1 < n and g[i + 1] == "*":
                out.append(("dstar",))
                i += 2
            else:
                out.append(("star",))
                i += 1
        elif c == "?":
            out.append(("any1",))
            i += 1
        elif c == "[":
            j = g.find("]", i + 1)
            if j < 0:
                raise Unsupported("unbalanced [")
            body = g[i + 1:j]
            neg = body.startswith("!")
            if neg:
                body = body[1:]
            if body.startswith("^") or not body:
                raise Unsupported("[^..] / [] not documented")
            ranges = []
            k = 0
            while k < len(body):
                if k + 2 < len(body) and body[k + 1] == "-":
                    ranges.append((body[k], body[k + 2]))
                    k += 3
                else:
                    ranges.append((body[k], body[k]))
                    k += 1
            out.append(("cls", neg, ranges))
            i = j + 1
        elif c in "})" and not stop:
            raise Unsupported("unbalanced %s" % c)
        else:
            out.append(("lit", c))
            i += 1
    return out, i


def _parse_alts(g, i, sep, close):
    alts = []
    while True:
        seq, i = _parse_seq(g, i, stop=sep + close)
        alts.append(seq)
        if i >= len(g):
            raise Unsupported("unbalanced group")
        if g[i] == close:
            return alts, i + 1
        i += 1  # separator


def _eq(a, b, ci):
    if ci:
        return a.lower() == b.lower() or a.upper() == b.upper()
    return a == b


def _in_cls(ch, ranges, ci):
    for lo, hi in ranges:
        if lo <= ch <= hi:
            return True
        if ci and (lo <= ch.lower() <= hi or lo <= ch.upper() <= hi):
            return True
    return False


def _match_seq(seq, k, s, i, ci, cont):
    """Match seq[k:] against s starting at i; call cont(j) for every possible end j; True if any
    continuation succeeds."""
    if k == len(seq):
        return cont(i)
    node = seq[k]
    t = node[0]
    n = len(s)
    if t == "lit":
        return i < n and _eq(s[i], node[1], ci) and _match_seq(seq, k + 1, s, i + 1, ci, cont)
    if t == "any1":
        return i < n and s[i] != "/" and _match_seq(seq, k + 1, s, i + 1, ci, cont)
    if t == "cls":
        if i >= n:
            return False
        hit = _in_cls(s[i], node[2], ci)
        if node[1]:
            hit = not hit
        return hit and _match_seq(seq, k + 1, s, i + 1, ci, cont)
    if t == "star":
        j = i
        while True:
            if _match_seq(seq, k + 1, s, j, ci, cont):
                return True
            if j < n and s[j] != "/":
                j += 1
            else:
                return False
    if t == "dstar":
        for j in range(i, n + 1):
            if _match_seq(seq, k + 1, s, j, ci, cont):
                return True
        return False
    if t == "grp":
        kind, alts = node[1], node[2]
        rest = lambda j: _match_seq(seq, k + 1, s, j, ci, cont)  # noqa: E731

        def once(start, then):
            for a in alts:
                if _match_seq(a, 0, s, start, ci, then):
                    return True
            return False
        if kind == "once":
            return once(i, rest)
        if kind == "opt":
            return rest(i) or once(i, rest)

        def many(start, seen):
            # zero or more repetitions; guard against empty-alternative loops
            if rest(start):
                return True

            def then(j):
                if j == start or (j, ) in seen:
                    return False
                seen.add((j,))
                return many(j, seen)
            return once(start, then)
        if kind == "many":
            return many(i, set())
        if kind == "plus":
            return once(i, lambda j: many(j, set()))
    raise Unsupported(repr(node))


def matches(glob, s, ci=False):
    """True iff the glob matches the whole string s."""
    seq = parse(glob) if isinstance(glob, str) else glob
    return _match_seq(seq, 0, s, 0, ci, lambda j: j == len(s))
