/* fcvshim: LD_PRELOAD interposer used by the fclones verification checks.
 *
 *  FCV_LOG=<file>      append one line per intercepted call that touches a path under FCV_ROOTS
 *  FCV_ROOTS=a:b       absolute path prefixes of interest (a call is logged/counted/faulted only
 *                      if one of its paths lies under a root)
 *  FCV_PLAN=rules      fault plan, rules separated by ';' or newline:
 *                         <ops>|<hex path substring or empty, '=' prefix: exact match of path1>|<nth or 0=every>|<action>
 *                      ops: comma list of op names or classes MUT, READ, ANY
 *                      action: fail:<errno> | killb | killa | short:<n> | delay:<us>
 *  FCV_FICLONE=emulate implement ioctl(FICLONE) as a whole-file copy
 *
 *  Log line:  <seq> <pid> <tid> <op> <class> ret=<r> errno=<e> x=<extra> <path1> [<path2>]
 *  paths are %-escaped (bytes <0x21, >0x7e, '%').  Fired rules: "FIRED rule=<i> seq=<n> action=<a>".
 */
#define _GNU_SOURCE
#include <dirent.h>
#include <dlfcn.h>
#include <errno.h>
#include <fcntl.h>
#include <limits.h>
#include <signal.h>
#include <stdarg.h>
#include <stdint.h>
#include <stdio.h>
#include <stdlib.h>
#include <string.h>
#include <sys/ioctl.h>
#include <sys/stat.h>
#include <sys/syscall.h>
#include <sys/types.h>
#include <sys/uio.h>
#include <unistd.h>

#ifndef FICLONE
#define FICLONE 0x40049409
#endif
#define FS_IOC_FIEMAP_NR 0xC020660B

#define MAXFD 4096
#define MAXROOTS 8
#define MAXRULES 32

enum { C_MUT = 1, C_READ = 2, C_LOCK = 4 };

static int g_init = 0;
static int g_logfd = -1;
static char g_roots[MAXROOTS][PATH_MAX];
static size_t g_rootlen[MAXROOTS];
static int g_nroots = 0;
static int g_ficlone_emulate = 0;
static volatile long g_seq = 0;

struct rule {
    char ops[256];
    char sub[PATH_MAX];
    size_t sublen;
    int exact; /* path1 must equal sub instead of containing it */
    long nth;
    volatile long count;
    int action; /* 1 fail, 2 killb, 3 killa, 4 short, 5 delay */
    long arg;
};
static struct rule g_rules[MAXRULES];
static int g_nrules = 0;

static char (*g_fdpath)[PATH_MAX] = NULL; /* [MAXFD][PATH_MAX], "" = untracked */
static volatile int g_fdlock = 0;

static void lock_fd(void) { while (__sync_lock_test_and_set(&g_fdlock, 1)) { } }
static void unlock_fd(void) { __sync_lock_release(&g_fdlock); }

static long raw_write(int fd, const void *b, size_t n) { return syscall(SYS_write, fd, b, n); }

static int hexval(int c) {
    if (c >= '0' && c <= '9') return c - '0';
    if (c >= 'a' && c <= 'f') return c - 'a' + 10;
    if (c >= 'A' && c <= 'F') return c - 'A' + 10;
    return -1;
}

static void parse_plan(const char *plan) {
    const char *p = plan;
    while (*p && g_nrules < MAXRULES) {
        const char *end = p;
        while (*end && *end != ';' && *end != '\n') end++;
        char buf[2 * PATH_MAX + 512];
        size_t n = (size_t)(end - p);
        if (n > 0 && n < sizeof buf) {
            memcpy(buf, p, n);
            buf[n] = 0;
            char *f1 = buf, *f2 = NULL, *f3 = NULL, *f4 = NULL;
            f2 = strchr(f1, '|');
            if (f2) { *f2++ = 0; f3 = strchr(f2, '|'); }
            if (f3) { *f3++ = 0; f4 = strchr(f3, '|'); }
            if (f4) {
                *f4++ = 0;
                struct rule *r = &g_rules[g_nrules];
                memset(r, 0, sizeof *r);
                snprintf(r->ops, sizeof r->ops, ",%s,", f1);
                if (f2[0] == '=') { r->exact = 1; f2++; }
                size_t hl = strlen(f2);
                size_t k = 0;
                for (size_t i = 0; i + 1 < hl + 1 && i + 1 < 2 * sizeof r->sub; i += 2) {
                    if (i + 1 >= hl) break;
                    int a = hexval(f2[i]), b = hexval(f2[i + 1]);
                    if (a < 0 || b < 0) break;
                    r->sub[k++] = (char)(a * 16 + b);
                }
                r->sublen = k;
                r->nth = atol(f3);
                if (!strncmp(f4, "fail:", 5)) { r->action = 1; r->arg = atol(f4 + 5); }
                else if (!strcmp(f4, "killb")) r->action = 2;
                else if (!strcmp(f4, "killa")) r->action = 3;
                else if (!strncmp(f4, "short:", 6)) { r->action = 4; r->arg = atol(f4 + 6); }
                else if (!strncmp(f4, "delay:", 6)) { r->action = 5; r->arg = atol(f4 + 6); }
                if (r->action) g_nrules++;
            }
        }
        p = *end ? end + 1 : end;
    }
}

static void do_init(void) {
    if (g_init) return;
    g_init = 1;
    g_fdpath = calloc(MAXFD, PATH_MAX);
    const char *roots = getenv("FCV_ROOTS");
    if (roots) {
        const char *p = roots;
        while (*p && g_nroots < MAXROOTS) {
            const char *e = strchr(p, ':');
            size_t n = e ? (size_t)(e - p) : strlen(p);
            if (n > 0 && n < PATH_MAX) {
                memcpy(g_roots[g_nroots], p, n);
                g_roots[g_nroots][n] = 0;
                while (n > 1 && g_roots[g_nroots][n - 1] == '/') g_roots[g_nroots][--n] = 0;
                g_rootlen[g_nroots] = n;
                g_nroots++;
            }
            p = e ? e + 1 : p + n;
        }
    }
    const char *log = getenv("FCV_LOG");
    if (log && *log) {
        int fd = (int)syscall(SYS_openat, AT_FDCWD, log, O_WRONLY | O_APPEND | O_CREAT | O_CLOEXEC, 0644);
        if (fd >= 0) {
            int hi = (int)syscall(SYS_fcntl, fd, F_DUPFD_CLOEXEC, 1000);
            if (hi >= 0) { syscall(SYS_close, fd); fd = hi; }
            g_logfd = fd;
        }
    }
    const char *plan = getenv("FCV_PLAN");
    if (plan) parse_plan(plan);
    const char *fc = getenv("FCV_FICLONE");
    if (fc && !strcmp(fc, "emulate")) g_ficlone_emulate = 1;
}

__attribute__((constructor)) static void ctor(void) { do_init(); }

#define REAL(name) \
    static __typeof__(name) *real_##name = NULL; \
    if (!real_##name) real_##name = dlsym(RTLD_NEXT, #name)

static int in_roots(const char *abs) {
    if (!abs || !*abs) return 0;
    for (int i = 0; i < g_nroots; i++) {
        size_t n = g_rootlen[i];
        if (!strncmp(abs, g_roots[i], n) && (abs[n] == 0 || abs[n] == '/')) return 1;
    }
    return 0;
}

/* resolve (dirfd, path) to an absolute path lexically; returns 0 on success */
static int absolutize(int dirfd, const char *path, char *out) {
    if (!path) { out[0] = 0; return -1; }
    if (path[0] == '/') {
        size_t n = strlen(path);
        if (n >= PATH_MAX) return -1;
        memcpy(out, path, n + 1);
        return 0;
    }
    char base[PATH_MAX];
    if (dirfd == AT_FDCWD) {
        if (syscall(SYS_getcwd, base, sizeof base) < 0) return -1;
    } else {
        char link[64];
        snprintf(link, sizeof link, "/proc/self/fd/%d", dirfd);
        long n = syscall(SYS_readlinkat, AT_FDCWD, link, base, sizeof base - 1);
        if (n <= 0) return -1;
        base[n] = 0;
    }
    size_t bl = strlen(base), pl = strlen(path);
    if (bl + 1 + pl >= PATH_MAX) return -1;
    memcpy(out, base, bl);
    if (pl) { out[bl] = '/'; memcpy(out + bl + 1, path, pl + 1); }
    else out[bl] = 0;
    return 0;
}

/* path of an fd: tracked table first, /proc otherwise */
static int fd_path(int fd, char *out, int resolve) {
    out[0] = 0;
    if (fd < 0) return -1;
    if (fd < MAXFD && g_fdpath) {
        lock_fd();
        if (g_fdpath[fd][0]) {
            strcpy(out, g_fdpath[fd]);
            unlock_fd();
            return 0;
        }
        unlock_fd();
    }
    if (!resolve) return -1;
    char link[64];
    snprintf(link, sizeof link, "/proc/self/fd/%d", fd);
    long n = syscall(SYS_readlinkat, AT_FDCWD, link, out, PATH_MAX - 1);
    if (n <= 0) { out[0] = 0; return -1; }
    out[n] = 0;
    if (out[0] != '/') { out[0] = 0; return -1; }
    return 0;
}

static void track_fd(int fd, const char *abs) {
    if (fd < 0 || fd >= MAXFD || !g_fdpath) return;
    lock_fd();
    if (abs && in_roots(abs)) strcpy(g_fdpath[fd], abs);
    else g_fdpath[fd][0] = 0;
    unlock_fd();
}

static size_t esc(char *dst, size_t cap, const char *s) {
    static const char hx[] = "0123456789ABCDEF";
    size_t k = 0;
    for (; *s && k + 4 < cap; s++) {
        unsigned char c = (unsigned char)*s;
        if (c < 0x21 || c > 0x7e || c == '%') { dst[k++] = '%'; dst[k++] = hx[c >> 4]; dst[k++] = hx[c & 15]; }
        else dst[k++] = (char)c;
    }
    dst[k] = 0;
    return k;
}

static void logline(long seq, const char *op, int cls, long ret, int err, long x, const char *p1, const char *p2) {
    if (g_logfd < 0) return;
    char buf[2 * 3 * PATH_MAX + 256];
    char e1[3 * PATH_MAX + 8], e2[3 * PATH_MAX + 8];
    esc(e1, sizeof e1, p1 ? p1 : "");
    e2[0] = 0;
    if (p2) esc(e2, sizeof e2, p2);
    int n = snprintf(buf, sizeof buf, "%ld %d %ld %s %s ret=%ld errno=%d x=%ld %s%s%s\n", seq, (int)getpid(),
                     (long)syscall(SYS_gettid), op, cls == C_MUT ? "MUT" : cls == C_READ ? "READ" : "LOCK", ret, err, x,
                     e1[0] ? e1 : "-", p2 ? " " : "", p2 ? e2 : "");
    if (n > 0) raw_write(g_logfd, buf, (size_t)n);
}

static void logfired(int idx, long seq, const char *what) {
    if (g_logfd < 0) return;
    char buf[128];
    int n = snprintf(buf, sizeof buf, "FIRED rule=%d seq=%ld action=%s pid=%d\n", idx, seq, what, (int)getpid());
    if (n > 0) raw_write(g_logfd, buf, (size_t)n);
}

/* Decide what to do for a call. Returns action (0 none, 1 fail, 2 killb(handled here), 3 killa, 4 short,
 * 5 delay(handled here)); *arg receives the action argument; *ridx the rule index. */
static int plan_for(const char *op, int cls, const char *p1, const char *p2, long seq, long *arg, int *ridx) {
    /* every rule counts every call it matches; the first rule whose count reaches its nth fires */
    struct rule *hit_rule = NULL;
    int hit_idx = -1;
    for (int i = 0; i < g_nrules; i++) {
        struct rule *r = &g_rules[i];
        char needle[64];
        snprintf(needle, sizeof needle, ",%s,", op);
        int opmatch = strstr(r->ops, ",ANY,") != NULL || strstr(r->ops, needle) != NULL ||
                      (cls == C_MUT && strstr(r->ops, ",MUT,")) || (cls == C_READ && strstr(r->ops, ",READ,")) ||
                      (cls == C_LOCK && strstr(r->ops, ",LOCK,"));
        if (!opmatch) continue;
        if (r->sublen && r->exact) {
            if (!p1 || strlen(p1) != r->sublen || memcmp(p1, r->sub, r->sublen) != 0) continue;
        } else if (r->sublen) {
            int hit = 0;
            if (p1 && memmem(p1, strlen(p1), r->sub, r->sublen)) hit = 1;
            if (!hit && p2 && memmem(p2, strlen(p2), r->sub, r->sublen)) hit = 1;
            if (!hit) continue;
        }
        long c = __sync_add_and_fetch(&r->count, 1);
        if (r->nth != 0 && c != r->nth) continue;
        if (!hit_rule) { hit_rule = r; hit_idx = i; }
    }
    if (!hit_rule) return 0;
    *arg = hit_rule->arg;
    *ridx = hit_idx;
    if (hit_rule->action == 2) {
        logfired(hit_idx, seq, "killb");
        syscall(SYS_kill, getpid(), SIGKILL);
        for (;;) pause();
    }
    if (hit_rule->action == 5) {
        logfired(hit_idx, seq, "delay");
        usleep((useconds_t)hit_rule->arg);
        return 0;
    }
    return hit_rule->action;
}

static void kill_after(int ridx, long seq) {
    logfired(ridx, seq, "killa");
    syscall(SYS_kill, getpid(), SIGKILL);
    for (;;) pause();
}

/* Common prologue. Returns 1 if the call is of interest (some path under roots). */
#define INTEREST(p1, p2) (g_nroots > 0 && (in_roots(p1) || ((p2) && in_roots(p2))))

#define PROLOGUE(opname, cls, P1, P2)                                              \
    long seq_ = 0; long arg_ = 0; int ridx_ = -1; int act_ = 0;                    \
    int interest_ = INTEREST(P1, P2);                                              \
    if (interest_) {                                                               \
        seq_ = __sync_add_and_fetch(&g_seq, 1);                                    \
        act_ = plan_for(opname, cls, P1, P2, seq_, &arg_, &ridx_);                 \
    }

#define EPILOGUE(opname, cls, ret, x, P1, P2)                                      \
    if (interest_) {                                                               \
        int e_ = errno;                                                            \
        logline(seq_, opname, cls, (long)(ret), (ret) < 0 ? e_ : 0, (long)(x), P1, P2); \
        if (act_ == 3) kill_after(ridx_, seq_);                                    \
        errno = e_;                                                                \
    }

#define FAIL_IF_PLANNED(opname, cls, x, P1, P2, failret)                           \
    if (act_ == 1) {                                                               \
        logfired(ridx_, seq_, "fail");                                             \
        logline(seq_, opname, cls, -1, (int)arg_, (long)(x), P1, P2);              \
        errno = (int)arg_;                                                         \
        return failret;                                                            \
    }

/* ---------------------------------------------------------------- open family */

static int is_write_open(int flags) {
    return (flags & O_ACCMODE) != O_RDONLY || (flags & (O_CREAT | O_TRUNC)) != 0;
}

static int open_common(const char *opname, int dirfd, const char *path, int flags, mode_t mode) {
    do_init();
    char abs[PATH_MAX];
    if (absolutize(dirfd, path, abs) != 0) abs[0] = 0;
    int cls = is_write_open(flags) ? C_MUT : C_READ;
    PROLOGUE(opname, cls, abs, NULL)
    FAIL_IF_PLANNED(opname, cls, flags, abs, NULL, -1)
    int fd = (int)syscall(SYS_openat, dirfd, path, flags, mode);
    if (fd >= 0) track_fd(fd, abs);
    EPILOGUE(opname, cls, fd, flags, abs, NULL)
    return fd;
}

int open(const char *path, int flags, ...) {
    mode_t mode = 0;
    if (flags & (O_CREAT | O_TMPFILE)) { va_list ap; va_start(ap, flags); mode = va_arg(ap, mode_t); va_end(ap); }
    return open_common("open", AT_FDCWD, path, flags, mode);
}
int open64(const char *path, int flags, ...) {
    mode_t mode = 0;
    if (flags & (O_CREAT | O_TMPFILE)) { va_list ap; va_start(ap, flags); mode = va_arg(ap, mode_t); va_end(ap); }
    return open_common("open", AT_FDCWD, path, flags | O_LARGEFILE, mode);
}
int openat(int dirfd, const char *path, int flags, ...) {
    mode_t mode = 0;
    if (flags & (O_CREAT | O_TMPFILE)) { va_list ap; va_start(ap, flags); mode = va_arg(ap, mode_t); va_end(ap); }
    return open_common("open", dirfd, path, flags, mode);
}
int openat64(int dirfd, const char *path, int flags, ...) {
    mode_t mode = 0;
    if (flags & (O_CREAT | O_TMPFILE)) { va_list ap; va_start(ap, flags); mode = va_arg(ap, mode_t); va_end(ap); }
    return open_common("open", dirfd, path, flags | O_LARGEFILE, mode);
}
int creat(const char *path, mode_t mode) { return open_common("open", AT_FDCWD, path, O_CREAT | O_WRONLY | O_TRUNC, mode); }
int creat64(const char *path, mode_t mode) { return open_common("open", AT_FDCWD, path, O_CREAT | O_WRONLY | O_TRUNC, mode); }

int close(int fd) {
    do_init();
    char p[PATH_MAX];
    fd_path(fd, p, 0);
    PROLOGUE("close", C_READ, p, NULL)
    if (fd >= 0 && fd < MAXFD && g_fdpath) { lock_fd(); g_fdpath[fd][0] = 0; unlock_fd(); }
    int r = (int)syscall(SYS_close, fd);
    EPILOGUE("close", C_READ, r, fd, p, NULL)
    return r;
}

/* ---------------------------------------------------------------- read / write */

ssize_t read(int fd, void *buf, size_t n) {
    do_init();
    char p[PATH_MAX];
    fd_path(fd, p, 0);
    PROLOGUE("read", C_READ, p, NULL)
    FAIL_IF_PLANNED("read", C_READ, n, p, NULL, -1)
    size_t want = n;
    if (act_ == 4 && (size_t)arg_ < n) { want = (size_t)arg_; logfired(ridx_, seq_, "short"); }
    long off = interest_ ? (long)syscall(SYS_lseek, fd, 0, SEEK_CUR) : 0;
    ssize_t r = syscall(SYS_read, fd, buf, want);
    EPILOGUE("read", C_READ, r, off, p, NULL)
    return r;
}

ssize_t pread64(int fd, void *buf, size_t n, off_t off) {
    do_init();
    char p[PATH_MAX];
    fd_path(fd, p, 0);
    PROLOGUE("read", C_READ, p, NULL)
    FAIL_IF_PLANNED("read", C_READ, n, p, NULL, -1)
    ssize_t r = syscall(SYS_pread64, fd, buf, n, off);
    EPILOGUE("read", C_READ, r, off, p, NULL)
    return r;
}
ssize_t pread(int fd, void *buf, size_t n, off_t off) { return pread64(fd, buf, n, off); }

ssize_t write(int fd, const void *buf, size_t n) {
    do_init();
    char p[PATH_MAX];
    if (g_nroots > 0) fd_path(fd, p, fd > 2); else p[0] = 0;
    PROLOGUE("write", C_MUT, p, NULL)
    FAIL_IF_PLANNED("write", C_MUT, n, p, NULL, -1)
    ssize_t r = syscall(SYS_write, fd, buf, n);
    EPILOGUE("write", C_MUT, r, n, p, NULL)
    return r;
}

ssize_t pwrite64(int fd, const void *buf, size_t n, off_t off) {
    do_init();
    char p[PATH_MAX];
    if (g_nroots > 0) fd_path(fd, p, fd > 2); else p[0] = 0;
    PROLOGUE("write", C_MUT, p, NULL)
    FAIL_IF_PLANNED("write", C_MUT, n, p, NULL, -1)
    ssize_t r = syscall(SYS_pwrite64, fd, buf, n, off);
    EPILOGUE("write", C_MUT, r, n, p, NULL)
    return r;
}
ssize_t pwrite(int fd, const void *buf, size_t n, off_t off) { return pwrite64(fd, buf, n, off); }

ssize_t writev(int fd, const struct iovec *iov, int cnt) {
    do_init();
    char p[PATH_MAX];
    if (g_nroots > 0) fd_path(fd, p, fd > 2); else p[0] = 0;
    PROLOGUE("write", C_MUT, p, NULL)
    FAIL_IF_PLANNED("write", C_MUT, cnt, p, NULL, -1)
    ssize_t r = syscall(SYS_writev, fd, iov, cnt);
    EPILOGUE("write", C_MUT, r, cnt, p, NULL)
    return r;
}

ssize_t copy_file_range(int fdin, off64_t *offin, int fdout, off64_t *offout, size_t len, unsigned int flags) {
    do_init();
    char p1[PATH_MAX], p2[PATH_MAX];
    fd_path(fdout, p1, 1);
    fd_path(fdin, p2, 1);
    PROLOGUE("copy_file_range", C_MUT, p1, p2)
    FAIL_IF_PLANNED("copy_file_range", C_MUT, len, p1, p2, -1)
    ssize_t r = syscall(SYS_copy_file_range, fdin, offin, fdout, offout, len, flags);
    EPILOGUE("copy_file_range", C_MUT, r, len, p1, p2)
    return r;
}

ssize_t sendfile64(int out, int in, off64_t *off, size_t count) {
    do_init();
    char p1[PATH_MAX], p2[PATH_MAX];
    fd_path(out, p1, 1);
    fd_path(in, p2, 1);
    PROLOGUE("sendfile", C_MUT, p1, p2)
    FAIL_IF_PLANNED("sendfile", C_MUT, count, p1, p2, -1)
    ssize_t r = syscall(SYS_sendfile, out, in, off, count);
    EPILOGUE("sendfile", C_MUT, r, count, p1, p2)
    return r;
}
ssize_t sendfile(int out, int in, off_t *off, size_t count) { return sendfile64(out, in, (off64_t *)off, count); }

off64_t lseek64(int fd, off64_t off, int whence) {
    do_init();
    char p[PATH_MAX];
    fd_path(fd, p, 0);
    PROLOGUE("lseek", C_READ, p, NULL)
    FAIL_IF_PLANNED("lseek", C_READ, off, p, NULL, -1)
    off64_t r = syscall(SYS_lseek, fd, off, whence);
    EPILOGUE("lseek", C_READ, r, off, p, NULL)
    return r;
}
off_t lseek(int fd, off_t off, int whence) { return lseek64(fd, off, whence); }

int ftruncate64(int fd, off64_t len) {
    do_init();
    char p[PATH_MAX];
    fd_path(fd, p, 1);
    PROLOGUE("ftruncate", C_MUT, p, NULL)
    FAIL_IF_PLANNED("ftruncate", C_MUT, len, p, NULL, -1)
    int r = (int)syscall(SYS_ftruncate, fd, len);
    EPILOGUE("ftruncate", C_MUT, r, len, p, NULL)
    return r;
}
int ftruncate(int fd, off_t len) { return ftruncate64(fd, len); }

int truncate64(const char *path, off64_t len) {
    do_init();
    char abs[PATH_MAX];
    if (absolutize(AT_FDCWD, path, abs) != 0) abs[0] = 0;
    PROLOGUE("truncate", C_MUT, abs, NULL)
    FAIL_IF_PLANNED("truncate", C_MUT, len, abs, NULL, -1)
    int r = (int)syscall(SYS_truncate, path, len);
    EPILOGUE("truncate", C_MUT, r, len, abs, NULL)
    return r;
}
int truncate(const char *path, off_t len) { return truncate64(path, len); }

/* ---------------------------------------------------------------- names */

#define TWO_PATH_CALL(fname, opname, sysexpr, decl, d1, pa, d2, pb)                  \
    int fname decl {                                                                \
        do_init();                                                                  \
        char a1[PATH_MAX], a2[PATH_MAX];                                            \
        if (absolutize(d1, pa, a1) != 0) a1[0] = 0;                                 \
        if (absolutize(d2, pb, a2) != 0) a2[0] = 0;                                 \
        PROLOGUE(opname, C_MUT, a1, a2)                                             \
        FAIL_IF_PLANNED(opname, C_MUT, 0, a1, a2, -1)                               \
        int r = (int)(sysexpr);                                                     \
        EPILOGUE(opname, C_MUT, r, 0, a1, a2)                                       \
        return r;                                                                   \
    }

TWO_PATH_CALL(rename, "rename", syscall(SYS_renameat2, AT_FDCWD, o, AT_FDCWD, n, 0), (const char *o, const char *n), AT_FDCWD, o, AT_FDCWD, n)
TWO_PATH_CALL(renameat, "rename", syscall(SYS_renameat2, od, o, nd, n, 0), (int od, const char *o, int nd, const char *n), od, o, nd, n)
TWO_PATH_CALL(renameat2, "rename", syscall(SYS_renameat2, od, o, nd, n, fl), (int od, const char *o, int nd, const char *n, unsigned int fl), od, o, nd, n)
TWO_PATH_CALL(link, "link", syscall(SYS_linkat, AT_FDCWD, o, AT_FDCWD, n, 0), (const char *o, const char *n), AT_FDCWD, o, AT_FDCWD, n)
TWO_PATH_CALL(linkat, "link", syscall(SYS_linkat, od, o, nd, n, fl), (int od, const char *o, int nd, const char *n, int fl), od, o, nd, n)

int symlink(const char *target, const char *linkpath) {
    do_init();
    char a1[PATH_MAX];
    if (absolutize(AT_FDCWD, linkpath, a1) != 0) a1[0] = 0;
    PROLOGUE("symlink", C_MUT, a1, NULL)
    FAIL_IF_PLANNED("symlink", C_MUT, 0, a1, target, -1)
    int r = (int)syscall(SYS_symlinkat, target, AT_FDCWD, linkpath);
    EPILOGUE("symlink", C_MUT, r, 0, a1, target)
    return r;
}
int symlinkat(const char *target, int nd, const char *linkpath) {
    do_init();
    char a1[PATH_MAX];
    if (absolutize(nd, linkpath, a1) != 0) a1[0] = 0;
    PROLOGUE("symlink", C_MUT, a1, NULL)
    FAIL_IF_PLANNED("symlink", C_MUT, 0, a1, target, -1)
    int r = (int)syscall(SYS_symlinkat, target, nd, linkpath);
    EPILOGUE("symlink", C_MUT, r, 0, a1, target)
    return r;
}

#define ONE_PATH_CALL(fname, opname, cls, sysexpr, decl, dfd, pa, xval)             \
    int fname decl {                                                                \
        do_init();                                                                  \
        char a1[PATH_MAX];                                                          \
        if (absolutize(dfd, pa, a1) != 0) a1[0] = 0;                                \
        PROLOGUE(opname, cls, a1, NULL)                                             \
        FAIL_IF_PLANNED(opname, cls, xval, a1, NULL, -1)                            \
        int r = (int)(sysexpr);                                                     \
        EPILOGUE(opname, cls, r, xval, a1, NULL)                                    \
        return r;                                                                   \
    }

ONE_PATH_CALL(unlink, "unlink", C_MUT, syscall(SYS_unlinkat, AT_FDCWD, p, 0), (const char *p), AT_FDCWD, p, 0)
ONE_PATH_CALL(unlinkat, (fl & AT_REMOVEDIR) ? "rmdir" : "unlink", C_MUT, syscall(SYS_unlinkat, d, p, fl), (int d, const char *p, int fl), d, p, fl)
ONE_PATH_CALL(rmdir, "rmdir", C_MUT, syscall(SYS_unlinkat, AT_FDCWD, p, AT_REMOVEDIR), (const char *p), AT_FDCWD, p, 0)
ONE_PATH_CALL(mkdir, "mkdir", C_MUT, syscall(SYS_mkdirat, AT_FDCWD, p, m), (const char *p, mode_t m), AT_FDCWD, p, m)
ONE_PATH_CALL(mkdirat, "mkdir", C_MUT, syscall(SYS_mkdirat, d, p, m), (int d, const char *p, mode_t m), d, p, m)
ONE_PATH_CALL(mkfifo, "mkfifo", C_MUT, syscall(SYS_mknodat, AT_FDCWD, p, m | S_IFIFO, 0), (const char *p, mode_t m), AT_FDCWD, p, m)
ONE_PATH_CALL(mkfifoat, "mkfifo", C_MUT, syscall(SYS_mknodat, d, p, m | S_IFIFO, 0), (int d, const char *p, mode_t m), d, p, m)
ONE_PATH_CALL(chmod, "chmod", C_MUT, syscall(SYS_fchmodat, AT_FDCWD, p, m), (const char *p, mode_t m), AT_FDCWD, p, m)
ONE_PATH_CALL(fchmodat, "chmod", C_MUT, syscall(SYS_fchmodat, d, p, m), (int d, const char *p, mode_t m, int fl), d, p, m)
ONE_PATH_CALL(chown, "chown", C_MUT, syscall(SYS_fchownat, AT_FDCWD, p, u, g, 0), (const char *p, uid_t u, gid_t g), AT_FDCWD, p, 0)
ONE_PATH_CALL(lchown, "chown", C_MUT, syscall(SYS_fchownat, AT_FDCWD, p, u, g, AT_SYMLINK_NOFOLLOW), (const char *p, uid_t u, gid_t g), AT_FDCWD, p, 0)
ONE_PATH_CALL(fchownat, "chown", C_MUT, syscall(SYS_fchownat, d, p, u, g, fl), (int d, const char *p, uid_t u, gid_t g, int fl), d, p, 0)
ONE_PATH_CALL(access, "access", C_READ, syscall(SYS_faccessat, AT_FDCWD, p, m), (const char *p, int m), AT_FDCWD, p, m)

int utimensat(int d, const char *p, const struct timespec ts[2], int fl) {
    do_init();
    char a1[PATH_MAX];
    if (p) { if (absolutize(d, p, a1) != 0) a1[0] = 0; }
    else fd_path(d, a1, 1);
    PROLOGUE("utimens", C_MUT, a1, NULL)
    FAIL_IF_PLANNED("utimens", C_MUT, 0, a1, NULL, -1)
    int r = (int)syscall(SYS_utimensat, d, p, ts, fl);
    EPILOGUE("utimens", C_MUT, r, 0, a1, NULL)
    return r;
}
int futimens(int fd, const struct timespec ts[2]) { return utimensat(fd, NULL, ts, 0); }

#define FD_MUT_CALL(fname, opname, sysexpr, decl, fdv)                              \
    int fname decl {                                                                \
        do_init();                                                                  \
        char a1[PATH_MAX];                                                          \
        fd_path(fdv, a1, 1);                                                        \
        PROLOGUE(opname, C_MUT, a1, NULL)                                           \
        FAIL_IF_PLANNED(opname, C_MUT, 0, a1, NULL, -1)                             \
        int r = (int)(sysexpr);                                                     \
        EPILOGUE(opname, C_MUT, r, 0, a1, NULL)                                     \
        return r;                                                                   \
    }

FD_MUT_CALL(fchmod, "chmod", syscall(SYS_fchmod, fd, m), (int fd, mode_t m), fd)
FD_MUT_CALL(fchown, "chown", syscall(SYS_fchown, fd, u, g), (int fd, uid_t u, gid_t g), fd)
FD_MUT_CALL(fsetxattr, "setxattr", syscall(SYS_fsetxattr, fd, n, v, s, fl), (int fd, const char *n, const void *v, size_t s, int fl), fd)
FD_MUT_CALL(fremovexattr, "removexattr", syscall(SYS_fremovexattr, fd, n), (int fd, const char *n), fd)

ONE_PATH_CALL(setxattr, "setxattr", C_MUT, syscall(SYS_setxattr, p, n, v, s, fl), (const char *p, const char *n, const void *v, size_t s, int fl), AT_FDCWD, p, 0)
ONE_PATH_CALL(lsetxattr, "setxattr", C_MUT, syscall(SYS_lsetxattr, p, n, v, s, fl), (const char *p, const char *n, const void *v, size_t s, int fl), AT_FDCWD, p, 0)

ssize_t readlink(const char *p, char *buf, size_t n) {
    do_init();
    char a1[PATH_MAX];
    if (absolutize(AT_FDCWD, p, a1) != 0) a1[0] = 0;
    PROLOGUE("readlink", C_READ, a1, NULL)
    FAIL_IF_PLANNED("readlink", C_READ, 0, a1, NULL, -1)
    ssize_t r = syscall(SYS_readlinkat, AT_FDCWD, p, buf, n);
    EPILOGUE("readlink", C_READ, r, 0, a1, NULL)
    return r;
}

/* ---------------------------------------------------------------- stat family */

int statx(int d, const char *p, int fl, unsigned int mask, struct statx *st) {
    do_init();
    char a1[PATH_MAX];
    if (p && *p) { if (absolutize(d, p, a1) != 0) a1[0] = 0; }
    else fd_path(d, a1, 0);
    PROLOGUE("stat", C_READ, a1, NULL)
    FAIL_IF_PLANNED("stat", C_READ, fl, a1, NULL, -1)
    int r = (int)syscall(SYS_statx, d, p, fl, mask, st);
    EPILOGUE("stat", C_READ, r, fl, a1, NULL)
    return r;
}

static int stat_common(int d, const char *p, struct stat *st, int fl) {
    do_init();
    char a1[PATH_MAX];
    if (p && *p) { if (absolutize(d, p, a1) != 0) a1[0] = 0; }
    else fd_path(d, a1, 0);
    PROLOGUE("stat", C_READ, a1, NULL)
    FAIL_IF_PLANNED("stat", C_READ, fl, a1, NULL, -1)
    int r = (int)syscall(SYS_newfstatat, d, p, st, fl);
    EPILOGUE("stat", C_READ, r, fl, a1, NULL)
    return r;
}
int stat(const char *p, struct stat *st) { return stat_common(AT_FDCWD, p, st, 0); }
int lstat(const char *p, struct stat *st) { return stat_common(AT_FDCWD, p, st, AT_SYMLINK_NOFOLLOW); }
int fstatat(int d, const char *p, struct stat *st, int fl) { return stat_common(d, p, st, fl); }
int stat64(const char *p, struct stat64 *st) { return stat_common(AT_FDCWD, p, (struct stat *)st, 0); }
int lstat64(const char *p, struct stat64 *st) { return stat_common(AT_FDCWD, p, (struct stat *)st, AT_SYMLINK_NOFOLLOW); }
int fstatat64(int d, const char *p, struct stat64 *st, int fl) { return stat_common(d, p, (struct stat *)st, fl); }

/* ---------------------------------------------------------------- directories */

#define MAXDIRS 256
static struct { DIR *d; char path[PATH_MAX]; } g_dirs[MAXDIRS];
static volatile int g_dirlock = 0;

static void dir_remember(DIR *d, const char *path) {
    while (__sync_lock_test_and_set(&g_dirlock, 1)) { }
    for (int i = 0; i < MAXDIRS; i++)
        if (!g_dirs[i].d) { g_dirs[i].d = d; strncpy(g_dirs[i].path, path, PATH_MAX - 1); break; }
    __sync_lock_release(&g_dirlock);
}
static void dir_lookup(DIR *d, char *out, int forget) {
    out[0] = 0;
    while (__sync_lock_test_and_set(&g_dirlock, 1)) { }
    for (int i = 0; i < MAXDIRS; i++)
        if (g_dirs[i].d == d) { strcpy(out, g_dirs[i].path); if (forget) g_dirs[i].d = NULL; break; }
    __sync_lock_release(&g_dirlock);
}

DIR *opendir(const char *p) {
    do_init();
    REAL(opendir);
    char a1[PATH_MAX];
    if (absolutize(AT_FDCWD, p, a1) != 0) a1[0] = 0;
    PROLOGUE("opendir", C_READ, a1, NULL)
    FAIL_IF_PLANNED("opendir", C_READ, 0, a1, NULL, NULL)
    DIR *d = real_opendir(p);
    if (d && interest_) dir_remember(d, a1);
    long r = d ? 0 : -1;
    EPILOGUE("opendir", C_READ, r, 0, a1, NULL)
    return d;
}

DIR *fdopendir(int fd) {
    do_init();
    REAL(fdopendir);
    char a1[PATH_MAX];
    fd_path(fd, a1, 1);
    PROLOGUE("opendir", C_READ, a1, NULL)
    FAIL_IF_PLANNED("opendir", C_READ, 0, a1, NULL, NULL)
    DIR *d = real_fdopendir(fd);
    if (d && interest_) dir_remember(d, a1);
    long r = d ? 0 : -1;
    EPILOGUE("opendir", C_READ, r, 0, a1, NULL)
    return d;
}

struct dirent64 *readdir64(DIR *d) {
    do_init();
    REAL(readdir64);
    char a1[PATH_MAX];
    dir_lookup(d, a1, 0);
    PROLOGUE("readdir", C_READ, a1, NULL)
    FAIL_IF_PLANNED("readdir", C_READ, 0, a1, NULL, NULL)
    errno = 0;
    struct dirent64 *e = real_readdir64(d);
    int saved = errno;
    if (interest_) {
        logline(seq_, "readdir", C_READ, e ? 1 : 0, saved, 0, a1, e ? e->d_name : NULL);
        if (act_ == 3) kill_after(ridx_, seq_);
    }
    errno = saved;
    return e;
}
struct dirent *readdir(DIR *d) { return (struct dirent *)readdir64(d); }

int closedir(DIR *d) {
    do_init();
    REAL(closedir);
    char a1[PATH_MAX];
    dir_lookup(d, a1, 1);
    return real_closedir(d);
}

/* ---------------------------------------------------------------- ioctl / fcntl */

static long emulate_ficlone(int dst, int src) {
    struct stat st;
    if (syscall(SYS_newfstatat, src, "", &st, AT_EMPTY_PATH) < 0) return -1;
    char buf[65536];
    off_t off = 0;
    while (off < st.st_size) {
        long n = syscall(SYS_pread64, src, buf, sizeof buf, off);
        if (n < 0) return -1;
        if (n == 0) break;
        long w = 0;
        while (w < n) {
            long k = syscall(SYS_pwrite64, dst, buf + w, (size_t)(n - w), off + w);
            if (k < 0) return -1;
            w += k;
        }
        off += n;
    }
    if (syscall(SYS_ftruncate, dst, st.st_size) < 0) return -1;
    return 0;
}

int ioctl(int fd, unsigned long req, ...) {
    do_init();
    va_list ap;
    va_start(ap, req);
    void *argp = va_arg(ap, void *);
    va_end(ap);
    if (req == FICLONE) {
        char p1[PATH_MAX], p2[PATH_MAX];
        fd_path(fd, p1, 1);
        fd_path((int)(long)argp, p2, 1);
        PROLOGUE("ficlone", C_MUT, p1, p2)
        FAIL_IF_PLANNED("ficlone", C_MUT, 0, p1, p2, -1)
        long r;
        if (g_ficlone_emulate) r = emulate_ficlone(fd, (int)(long)argp);
        else r = syscall(SYS_ioctl, fd, req, argp);
        EPILOGUE("ficlone", C_MUT, r, g_ficlone_emulate, p1, p2)
        return (int)r;
    }
    if (req == FS_IOC_FIEMAP_NR) {
        char p1[PATH_MAX];
        fd_path(fd, p1, 0);
        PROLOGUE("fiemap", C_READ, p1, NULL)
        FAIL_IF_PLANNED("fiemap", C_READ, 0, p1, NULL, -1)
        long r = syscall(SYS_ioctl, fd, req, argp);
        EPILOGUE("fiemap", C_READ, r, 0, p1, NULL)
        return (int)r;
    }
    return (int)syscall(SYS_ioctl, fd, req, argp);
}

static int fcntl_common(int fd, int cmd, void *argp) {
    do_init();
    if (cmd == F_SETLK || cmd == F_SETLKW || cmd == F_OFD_SETLK || cmd == F_OFD_SETLKW) {
        char p1[PATH_MAX];
        fd_path(fd, p1, 1);
        struct flock *fl = (struct flock *)argp;
        PROLOGUE("setlk", C_LOCK, p1, NULL)
        FAIL_IF_PLANNED("setlk", C_LOCK, fl ? fl->l_type : -1, p1, NULL, -1)
        long r = syscall(SYS_fcntl, fd, cmd, argp);
        EPILOGUE("setlk", C_LOCK, r, fl ? fl->l_type : -1, p1, NULL)
        return (int)r;
    }
    long r = syscall(SYS_fcntl, fd, cmd, argp);
    if (r >= 0 && (cmd == F_DUPFD || cmd == F_DUPFD_CLOEXEC)) {
        char p1[PATH_MAX];
        if (fd_path(fd, p1, 0) == 0) track_fd((int)r, p1);
        else track_fd((int)r, NULL);
    }
    return (int)r;
}
int fcntl(int fd, int cmd, ...) {
    va_list ap;
    va_start(ap, cmd);
    void *argp = va_arg(ap, void *);
    va_end(ap);
    return fcntl_common(fd, cmd, argp);
}
int fcntl64(int fd, int cmd, ...) {
    va_list ap;
    va_start(ap, cmd);
    void *argp = va_arg(ap, void *);
    va_end(ap);
    return fcntl_common(fd, cmd, argp);
}

int flock(int fd, int op) {
    do_init();
    char p1[PATH_MAX];
    fd_path(fd, p1, 1);
    PROLOGUE("flock", C_LOCK, p1, NULL)
    FAIL_IF_PLANNED("flock", C_LOCK, op, p1, NULL, -1)
    long r = syscall(SYS_flock, fd, op);
    EPILOGUE("flock", C_LOCK, r, op, p1, NULL)
    return (int)r;
}

int dup2(int o, int n) {
    do_init();
    long r = syscall(SYS_dup2, o, n);
    if (r >= 0 && o != n) {
        char p1[PATH_MAX];
        if (fd_path(o, p1, 0) == 0) track_fd(n, p1); else track_fd(n, NULL);
    }
    return (int)r;
}
int dup3(int o, int n, int fl) {
    do_init();
    long r = syscall(SYS_dup3, o, n, fl);
    if (r >= 0) {
        char p1[PATH_MAX];
        if (fd_path(o, p1, 0) == 0) track_fd(n, p1); else track_fd(n, NULL);
    }
    return (int)r;
}
int dup(int o) {
    do_init();
    long r = syscall(SYS_dup, o);
    if (r >= 0) {
        char p1[PATH_MAX];
        if (fd_path(o, p1, 0) == 0) track_fd((int)r, p1); else track_fd((int)r, NULL);
    }
    return (int)r;
}
