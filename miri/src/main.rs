//! C19: the repository's semaphore.rs (included verbatim) under Miri's seeded scheduler, and
//! natively as a stress test. One execution runs the whole scenario matrix selected by argv.
//!
//! argv: <mode> [filter]   mode = all | quick | stress
//! Output: one line per scenario "TRACE <scenario> <interleaving-hash> <events>", then "DONE <n>".
#[allow(dead_code)]
#[path = "/repo/fclones/src/semaphore.rs"]
mod semaphore;

use std::sync::atomic::{AtomicIsize, AtomicUsize, Ordering};
use std::sync::mpsc::channel;
use std::sync::{Arc, Mutex};
use std::thread;

use semaphore::{OwnedSemaphoreGuard, Semaphore};

#[derive(Clone, Copy, Debug)]
struct Scenario {
    threads: usize,
    pairs: usize,
    initial: isize,
    external: isize, // permits added by a separate releaser thread
    handoff: bool,   // guards are dropped by another thread
    notifier: bool,  // a thread issues bounded spurious wake-ups
    hold_yields: usize,
    hold_ms: u64, // the holder keeps its permit for this long (waiters must keep waiting, however long it takes)
}

impl Scenario {
    fn name(&self) -> String {
        format!(
            "t{}p{}i{}e{}{}{}y{}h{}",
            self.threads,
            self.pairs,
            self.initial,
            self.external,
            if self.handoff { "H" } else { "o" },
            if self.notifier { "N" } else { "q" },
            self.hold_yields,
            self.hold_ms
        )
    }
}

struct Monitor {
    holders: AtomicIsize,
    max_holders: AtomicIsize,
    permits_total: isize,
    floor: isize,
    events: Mutex<Vec<u32>>,
    acquired: AtomicUsize,
}

impl Monitor {
    fn ev(&self, thread: usize, kind: u32) {
        self.events.lock().unwrap().push((thread as u32) * 16 + kind);
    }
    fn enter(&self, thread: usize) {
        let h = self.holders.fetch_add(1, Ordering::SeqCst) + 1;
        self.max_holders.fetch_max(h, Ordering::SeqCst);
        self.acquired.fetch_add(1, Ordering::SeqCst);
        assert!(
            h <= self.permits_total,
            "VIOLATION more holders ({}) than permits ({})",
            h,
            self.permits_total
        );
        self.ev(thread, 1);
    }
    fn leave(&self, thread: usize) {
        self.ev(thread, 2);
        self.holders.fetch_sub(1, Ordering::SeqCst);
    }
}

fn run_scenario(sc: Scenario) -> (u64, usize, isize) {
    let sem = Arc::new(Semaphore::new(sc.initial));
    let mon = Arc::new(Monitor {
        holders: AtomicIsize::new(0),
        max_holders: AtomicIsize::new(0),
        permits_total: std::cmp::max(sc.initial, 0) + if sc.initial < 0 { sc.external + sc.initial } else { sc.external },
        floor: std::cmp::min(sc.initial, 0),
        events: Mutex::new(Vec::new()),
        acquired: AtomicUsize::new(0),
    });
    let (tx, rx) = channel::<(usize, OwnedSemaphoreGuard)>();
    let mut handles = Vec::new();

    // dropper thread for handed-off guards
    let dropper = if sc.handoff {
        let mon = mon.clone();
        Some(thread::spawn(move || {
            while let Ok((t, guard)) = rx.recv() {
                thread::yield_now();
                mon.leave(t);
                drop(guard);
            }
        }))
    } else {
        drop(rx);
        None
    };

    for t in 0..sc.threads {
        let sem = sem.clone();
        let mon = mon.clone();
        let tx = tx.clone();
        handles.push(thread::spawn(move || {
            for _ in 0..sc.pairs {
                mon.ev(t, 0);
                if sc.handoff {
                    let guard = sem.clone().access_owned();
                    mon.enter(t);
                    for _ in 0..sc.hold_yields {
                        thread::yield_now();
                    }
                    if sc.hold_ms > 0 {
                        thread::sleep(std::time::Duration::from_millis(sc.hold_ms));
                    }
                    tx.send((t, guard)).unwrap();
                } else {
                    let guard = sem.access();
                    mon.enter(t);
                    for _ in 0..sc.hold_yields {
                        thread::yield_now();
                    }
                    if sc.hold_ms > 0 {
                        thread::sleep(std::time::Duration::from_millis(sc.hold_ms));
                    }
                    mon.leave(t);
                    drop(guard);
                }
            }
        }));
    }
    drop(tx);

    // external releaser: adds permits one by one
    let releaser = {
        let sem = sem.clone();
        let mon = mon.clone();
        thread::spawn(move || {
            for _ in 0..sc.external {
                thread::yield_now();
                mon.ev(14, 3);
                sem.release();
            }
        })
    };

    // notifier: a bounded number of spurious wake-ups, each followed by an invariant check taken
    // under the semaphore's own lock
    let notifier = if sc.notifier {
        let sem = sem.clone();
        let mon = mon.clone();
        Some(thread::spawn(move || {
            for _ in 0..3 {
                thread::yield_now();
                mon.ev(15, 4);
                sem.verif_notify_all();
                let c = sem.verif_count();
                assert!(c >= mon.floor, "VIOLATION count {} below floor {}", c, mon.floor);
                assert!(c <= mon.permits_total.max(sc.initial + sc.external), "VIOLATION count {} above total", c);
            }
        }))
    } else {
        None
    };

    for h in handles {
        h.join().unwrap();
    }
    releaser.join().unwrap();
    if let Some(n) = notifier {
        n.join().unwrap();
    }
    if let Some(d) = dropper {
        d.join().unwrap();
    }
    let final_count = sem.verif_count();
    assert_eq!(
        final_count,
        sc.initial + sc.external,
        "VIOLATION permits not restored: count {} expected {}",
        final_count,
        sc.initial + sc.external
    );
    assert_eq!(mon.holders.load(Ordering::SeqCst), 0, "VIOLATION holders left");
    assert_eq!(mon.acquired.load(Ordering::SeqCst), sc.threads * sc.pairs, "VIOLATION lost acquisitions");
    // interleaving fingerprint (FNV-1a over the event order)
    let ev = mon.events.lock().unwrap();
    let mut h: u64 = 0xcbf29ce484222325;
    for e in ev.iter() {
        h ^= *e as u64;
        h = h.wrapping_mul(0x100000001b3);
    }
    (h, ev.len(), mon.max_holders.load(Ordering::SeqCst))
}

fn matrix(mode: &str) -> Vec<Scenario> {
    let mut v = Vec::new();
    for threads in 2..=4 {
        for pairs in 1..=3 {
            for &(initial, external) in &[(1isize, 0isize), (2, 0), (0, 1), (0, 2), (-1, 2), (1, 1)] {
                for handoff in [false, true] {
                    for notifier in [false, true] {
                        let sc = Scenario { threads, pairs, initial, external, handoff, notifier, hold_yields: 2, hold_ms: 0 };
                        if mode == "quick" {
                            // a covering subset: every value of every dimension, fewer combinations
                            let k = threads * 7 + pairs * 5 + (initial + 1) as usize * 3 + external as usize + handoff as usize * 2 + notifier as usize;
                            if k % 4 != 0 {
                                continue;
                            }
                        }
                        v.push(sc);
                    }
                }
            }
        }
    }
    // permits held for a long time: nobody else gets in meanwhile
    v.push(Scenario { threads: 2, pairs: 1, initial: 1, external: 0, handoff: false, notifier: false, hold_yields: 0, hold_ms: 1500 });
    v.push(Scenario { threads: 3, pairs: 1, initial: 1, external: 0, handoff: true, notifier: true, hold_yields: 0, hold_ms: 1200 });
    v
}

fn stress(threads: usize, pairs: usize, permits: isize) {
    let sc = Scenario { threads, pairs, initial: permits, external: 0, handoff: threads % 2 == 0, notifier: true, hold_yields: 1, hold_ms: 0 };
    let (h, n, maxh) = run_scenario(sc);
    println!("TRACE stress-{} {:016x} {} maxholders={}", sc.name(), h, n, maxh);
}

fn main() {
    let args: Vec<String> = std::env::args().collect();
    let mode = args.get(1).map(|s| s.as_str()).unwrap_or("quick");
    if mode == "stress" {
        let rounds: usize = args.get(2).and_then(|s| s.parse().ok()).unwrap_or(1);
        for r in 0..rounds {
            for &t in &[2usize, 3, 4, 8, 16, 32, 64] {
                for &p in &[1isize, 2, 3, 8] {
                    stress(t, 2000 / t + r, p);
                }
            }
        }
        let sc = Scenario { threads: 3, pairs: 1, initial: 1, external: 0, handoff: false, notifier: false, hold_yields: 0, hold_ms: 1200 };
        let (h, n, maxh) = run_scenario(sc);
        println!("TRACE stress-{} {:016x} {} maxholders={}", sc.name(), h, n, maxh);
        println!("DONE stress");
        return;
    }
    let filter = args.get(2).cloned();
    let mut n = 0;
    for sc in matrix(mode) {
        if let Some(f) = &filter {
            if !sc.name().contains(f.as_str()) {
                continue;
            }
        }
        println!("BEGIN {}", sc.name());
        let (h, events, maxh) = run_scenario(sc);
        println!("TRACE {} {:016x} {} maxholders={}", sc.name(), h, events, maxh);
        n += 1;
    }
    println!("DONE {}", n);
}
